//! Reference unifier: textbook Robinson unification with occurs check (through functions and properties),
//! over the checker's tag language. Independent of the implementation.

#[derive(Clone, Debug, PartialEq, Eq, Hash)]
pub enum T {
    Var(usize),
    Text,
    Object,
    Uri,
    Prop(Box<T>),
    Fun(Vec<T>, Box<T>),
}

pub type Subst = Vec<Option<T>>;

pub fn apply(s: &Subst, t: &T) -> T {
    match t {
        T::Var(i) => match &s[*i] {
            Some(u) => apply(s, u),
            None => t.clone(),
        },
        T::Prop(p) => T::Prop(Box::new(apply(s, p))),
        T::Fun(a, r) => T::Fun(a.iter().map(|x| apply(s, x)).collect(), Box::new(apply(s, r))),
        _ => t.clone(),
    }
}

fn occurs(i: usize, t: &T) -> bool {
    match t {
        T::Var(j) => i == *j,
        T::Prop(p) => occurs(i, p),
        T::Fun(a, r) => a.iter().any(|x| occurs(i, x)) || occurs(i, r),
        _ => false,
    }
}

fn unify1(s: &mut Subst, a: &T, b: &T) -> bool {
    let a = apply(s, a);
    let b = apply(s, b);
    match (&a, &b) {
        _ if a == b => true,
        (T::Var(i), _) => {
            if occurs(*i, &b) {
                false
            } else {
                s[*i] = Some(b.clone());
                true
            }
        }
        (_, T::Var(j)) => {
            if occurs(*j, &a) {
                false
            } else {
                s[*j] = Some(a.clone());
                true
            }
        }
        (T::Prop(p), T::Prop(q)) => unify1(s, p, q),
        (T::Fun(a1, r1), T::Fun(a2, r2)) => {
            a1.len() == a2.len() && unify1(s, r1, r2) && a1.iter().zip(a2.iter()).all(|(x, y)| unify1(s, x, y))
        }
        _ => false,
    }
}

/// Most general unifier of the system, if any.
pub fn unify(nvars: usize, eqs: &[(T, T)]) -> Option<Subst> {
    let mut s: Subst = vec![None; nvars];
    for (a, b) in eqs {
        if !unify1(&mut s, a, b) {
            return None;
        }
    }
    Some(s)
}

/// Are the two term tuples equal up to a bijective renaming of variables?
pub fn equal_up_to_renaming(xs: &[T], ys: &[T]) -> bool {
    fn go(a: &T, b: &T, f: &mut Vec<(usize, usize)>) -> bool {
        match (a, b) {
            (T::Var(i), T::Var(j)) => {
                for (x, y) in f.iter() {
                    if (x == i) != (y == j) {
                        return false;
                    }
                    if x == i {
                        return true;
                    }
                }
                f.push((*i, *j));
                true
            }
            (T::Prop(p), T::Prop(q)) => go(p, q, f),
            (T::Fun(a1, r1), T::Fun(a2, r2)) => {
                a1.len() == a2.len() && a1.iter().zip(a2.iter()).all(|(x, y)| go(x, y, f)) && go(r1, r2, f)
            }
            _ => a == b && !matches!(a, T::Var(_)),
        }
    }
    let mut f = Vec::new();
    xs.len() == ys.len() && xs.iter().zip(ys.iter()).all(|(a, b)| go(a, b, &mut f))
}

pub fn depth(t: &T) -> usize {
    match t {
        T::Prop(p) => 1 + depth(p),
        T::Fun(a, r) => 1 + a.iter().map(depth).max().unwrap_or(0).max(depth(r)),
        _ => 0,
    }
}

/// All terms of depth <= 1 over 3 variables (264 terms), atoms first.
pub fn terms_depth1() -> Vec<T> {
    let atoms = vec![T::Var(0), T::Var(1), T::Var(2), T::Text, T::Object, T::Uri];
    let mut out = atoms.clone();
    for a in &atoms {
        out.push(T::Prop(Box::new(a.clone())));
    }
    for a in &atoms {
        for b in &atoms {
            out.push(T::Fun(vec![a.clone()], Box::new(b.clone())));
        }
    }
    for a in &atoms {
        for b in &atoms {
            for c in &atoms {
                out.push(T::Fun(vec![a.clone(), b.clone()], Box::new(c.clone())));
            }
        }
    }
    out
}

/// A fixed subset of `n` terms for exhaustive pairs of equations.
pub fn subset(n: usize) -> Vec<T> {
    let v = |i| T::Var(i);
    let p = |t: T| T::Prop(Box::new(t));
    let f1 = |a: T, r: T| T::Fun(vec![a], Box::new(r));
    let f2 = |a: T, b: T, r: T| T::Fun(vec![a, b], Box::new(r));
    let mut out = vec![v(0), v(1), v(2), T::Text, T::Object, T::Uri];
    for a in [v(0), v(1), v(2), T::Text, T::Object, T::Uri] {
        out.push(p(a));
    }
    for a in [v(0), v(1), T::Text] {
        for b in [v(0), v(1), T::Text] {
            out.push(f1(a.clone(), b));
        }
    }
    out.push(p(p(v(0))));
    out.push(f1(p(v(0)), v(1)));
    out.push(f2(v(0), v(1), v(0)));
    // 24 so far
    for a in [v(0), v(1)] {
        for b in [v(0), v(1)] {
            for c in [v(0), v(1)] {
                out.push(f2(a.clone(), b.clone(), c));
            }
        }
    }
    for a in [v(2), T::Object] {
        for b in [v(2), T::Object] {
            out.push(f1(a.clone(), b));
        }
    }
    out.push(p(p(v(1))));
    out.push(f1(f1(v(0), v(0)), v(1)));
    out.push(f2(v(1), v(0), T::Text));
    out.push(f1(T::Text, p(v(2))));
    out.push(p(f1(v(1), v(1))));
    out.push(f1(v(0), f1(v(1), v(0))));
    out.truncate(n);
    out
}
