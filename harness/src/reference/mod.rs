pub mod eval;
pub mod unify;
