pub mod eval;
