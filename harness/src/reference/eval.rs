//! Reference evaluator and emitter (DESIGN.md Appendix A), computed from GenAST.
//! Produces the expected OpenAPI document as a JSON value. Shares no code with the implementation.

use crate::gen::ast::*;
use serde_json::{json, Map, Value};

#[derive(Clone, Debug, PartialEq)]
pub enum St {
    Code(u64),
    Range(u8),
}

#[derive(Clone, Debug)]
pub struct SchemaV {
    pub expr: Val,
    pub desc: Option<String>,
    pub title: Option<String>,
    pub required: Option<bool>,
    pub examples: Option<Vec<(String, String)>>,
}

#[derive(Clone, Debug)]
pub struct PropV {
    pub name: String,
    pub schema: SchemaV,
    pub desc: Option<String>,
    pub required: Option<bool>,
}

#[derive(Clone, Debug)]
pub enum SegV {
    Lit(String),
    Var(PropV),
}

#[derive(Clone, Debug)]
pub struct UriV {
    pub path: Vec<SegV>,
    pub params: Option<Vec<PropV>>,
    pub example: Option<String>,
}

#[derive(Clone, Debug, Default)]
pub struct ContentV {
    pub schema: Option<Box<SchemaV>>,
    pub status: Option<St>,
    pub media: Option<String>,
    pub headers: Option<Vec<PropV>>,
    pub desc: Option<String>,
    pub examples: Option<Vec<(String, String)>>,
}

type RangesV = Vec<((Option<St>, Option<String>), ContentV)>;

#[derive(Clone, Debug)]
pub struct XferV {
    pub methods: [bool; 7],
    pub domain: ContentV,
    pub ranges: RangesV,
    pub params: Option<Vec<PropV>>,
    pub desc: Option<String>,
    pub summary: Option<String>,
    pub tags: Vec<String>,
    pub id: Option<String>,
}

#[derive(Clone, Debug)]
pub struct RelV {
    pub uri: UriV,
    pub xfers: [Option<Box<XferV>>; 7],
}

#[derive(Clone, Debug)]
pub enum Val {
    Str(String),
    Num(u64),
    Status(St),
    PNum {
        minimum: Option<f64>,
        maximum: Option<f64>,
        multiple_of: Option<f64>,
        example: Option<f64>,
    },
    PInt {
        minimum: Option<i64>,
        maximum: Option<i64>,
        multiple_of: Option<i64>,
        example: Option<i64>,
    },
    PStr {
        pattern: Option<String>,
        enumeration: Vec<String>,
        format: Option<String>,
        example: Option<String>,
        min_length: Option<u64>,
        max_length: Option<u64>,
    },
    PBool,
    Uri(Box<UriV>),
    Rel(Box<RelV>),
    Obj(Vec<PropV>),
    Arr(Box<SchemaV>),
    Op(OpK, Vec<SchemaV>),
    /// Reference to a component by key: "@name" for explicit, "hash-…" for implicit ones. Carries the
    /// referenced value when it is known (a recursion point does not).
    Ref(String, Option<Box<Value_>>),
    Prop(Box<PropV>),
    Content(Box<ContentV>),
    Ranges(RangesV),
    Xfer(Box<XferV>),
    Lambda(DeclId),
    Builtin(String),
}

pub type Value_ = (Val, AnnMap);

#[derive(Debug, Clone, PartialEq)]
pub enum RefErr {
    /// A numeric status outside 100..=599: the located error "invalid literal" is expected.
    InvalidStatus(u64),
    /// The reference semantics does not define this shape (generator bug): the case is skipped, never a verdict.
    Undefined(String),
    /// Evaluation budget exceeded (unfolded size).
    TooLarge,
}

pub struct RefEval<'a> {
    p: &'a Program,
    recursive: Vec<bool>,
    /// components in insertion order: key -> content
    pub comps: Vec<(String, Option<SchemaV>)>,
    /// evaluated values of explicit / recursive declarations, by component key
    values: Vec<(String, Value_)>,
    fresh: usize,
    pub rec_evaluations: usize,
    pub steps: usize,
    pub budget: usize,
    /// Shapes whose meaning the language does not fix (or that fall under an open finding): the
    /// generator stays out of them for reference-based checks.
    pub flags: Vec<String>,
}

fn a_str(a: &AnnMap, k: &str) -> Option<String> {
    ann_get(a, k).and_then(|v| v.as_str()).map(|s| s.to_owned())
}
fn a_bool(a: &AnnMap, k: &str) -> Option<bool> {
    match ann_get(a, k) {
        Some(AnnVal::Bool(b)) => Some(*b),
        _ => None,
    }
}
fn a_num(a: &AnnMap, k: &str) -> Option<f64> {
    match ann_get(a, k) {
        Some(AnnVal::Int(i)) => Some(*i as f64),
        Some(AnnVal::Float(f)) => Some(*f),
        _ => None,
    }
}
fn a_int(a: &AnnMap, k: &str) -> Option<i64> {
    match ann_get(a, k) {
        Some(AnnVal::Int(i)) => Some(*i),
        _ => None,
    }
}
fn a_size(a: &AnnMap, k: &str) -> Option<u64> {
    match ann_get(a, k) {
        Some(AnnVal::Int(i)) if *i >= 0 => Some(*i as u64),
        _ => None,
    }
}
fn a_enum(a: &AnnMap, k: &str) -> Option<Vec<String>> {
    match ann_get(a, k) {
        Some(AnnVal::Seq(xs)) => Some(xs.iter().filter_map(|x| x.as_str().map(|s| s.to_owned())).collect()),
        _ => None,
    }
}
fn a_props(a: &AnnMap, k: &str) -> Option<Vec<(String, String)>> {
    match ann_get(a, k) {
        Some(AnnVal::Map(m)) => Some(
            m.iter()
                .filter_map(|(k, v)| v.as_str().map(|s| (k.clone(), s.to_owned())))
                .collect(),
        ),
        _ => None,
    }
}

fn merged(a: &AnnMap, b: &AnnMap) -> AnnMap {
    let mut r = a.clone();
    ann_extend(&mut r, b);
    r
}

type Env = Vec<(Target, Value_)>;

impl<'a> RefEval<'a> {
    pub fn new(p: &'a Program) -> Self {
        RefEval {
            p,
            recursive: p.recursive_decls(),
            comps: Vec::new(),
            values: Vec::new(),
            fresh: 0,
            rec_evaluations: 0,
            steps: 0,
            budget: 400_000,
            flags: Vec::new(),
        }
    }

    fn schema_of(&self, v: Value_) -> Result<SchemaV, RefErr> {
        let (val, a) = v;
        match val {
            Val::PNum { .. }
            | Val::PInt { .. }
            | Val::PStr { .. }
            | Val::PBool
            | Val::Uri(_)
            | Val::Rel(_)
            | Val::Obj(_)
            | Val::Arr(_)
            | Val::Op(..)
            | Val::Ref(..) => Ok(SchemaV {
                expr: val,
                desc: a_str(&a, "description"),
                title: a_str(&a, "title"),
                required: a_bool(&a, "required"),
                examples: a_props(&a, "examples"),
            }),
            other => Err(RefErr::Undefined(format!("not a schema: {other:?}"))),
        }
    }

    fn content_of(&self, v: Value_) -> Result<ContentV, RefErr> {
        match v.0 {
            Val::Content(c) => Ok(*c),
            _ => {
                let s = self.schema_of(v)?;
                Ok(ContentV {
                    desc: s.desc.clone(),
                    schema: Some(Box::new(s)),
                    ..Default::default()
                })
            }
        }
    }

    fn ranges_of(&self, v: Value_) -> Result<RangesV, RefErr> {
        match v.0 {
            Val::Ranges(r) => Ok(r),
            _ => {
                let c = self.content_of(v)?;
                Ok(vec![((c.status.clone(), c.media.clone()), c)])
            }
        }
    }

    fn prop_of(&self, v: Value_) -> Result<PropV, RefErr> {
        match v.0 {
            Val::Prop(p) => Ok(*p),
            o => Err(RefErr::Undefined(format!("not a property: {o:?}"))),
        }
    }

    fn props(&mut self, ps: &[E], env: &Env) -> Result<Vec<PropV>, RefErr> {
        let mut out = Vec::new();
        for p in ps {
            let v = self.eval(p, &Vec::new(), env)?;
            out.push(self.prop_of(v)?);
        }
        Ok(out)
    }

    fn uri_of(&self, v: Value_) -> Result<UriV, RefErr> {
        match v.0 {
            Val::Uri(u) => Ok(*u),
            Val::Ref(_, Some(inner)) => self.uri_of(*inner),
            o => Err(RefErr::Undefined(format!("not a uri: {o:?}"))),
        }
    }

    fn ranges_insert(&mut self, r: &mut RangesV, k: (Option<St>, Option<String>), c: ContentV) {
        if let Some(e) = r.iter_mut().find(|(ek, _)| *ek == k) {
            self.flag("dup-range-key");
            e.1 = c;
        } else {
            // same status, different media: one header set and one description per response
            if let Some((_, o)) = r.iter().find(|(ek, _)| ek.0 == k.0) {
                let hn = |c: &ContentV| format!("{:?}", c.headers);
                if hn(o) != hn(&c) || o.desc != c.desc {
                    self.flag("same-status-different-headers-or-description");
                }
                if k.0.is_none() {
                    self.flag("default-multi-media");
                }
            }
            r.push((k, c));
        }
    }

    /// A reference to a known value stands for that value where an object is required.
    fn unwrap_ref(mut v: Value_) -> Value_ {
        while let Val::Ref(_, Some(inner)) = v.0 {
            v = *inner;
        }
        v
    }

    fn flag(&mut self, f: &str) {
        if !self.flags.iter().any(|x| x == f) {
            self.flags.push(f.to_owned());
        }
    }

    fn check_dup_props(&mut self, ps: &[PropV], what: &str) {
        for (i, p) in ps.iter().enumerate() {
            if ps[..i].iter().any(|q| q.name == p.name) {
                self.flag(what);
            }
        }
    }

    fn check_uri(&mut self, u: &UriV) {
        let names: Vec<&str> = u
            .path
            .iter()
            .filter_map(|s| match s {
                SegV::Var(p) => Some(p.name.as_str()),
                _ => None,
            })
            .collect();
        for (i, n) in names.iter().enumerate() {
            if names[..i].contains(n) {
                self.flag("dup-path-variable");
            }
        }
    }

    pub fn eval(&mut self, e: &E, a: &AnnMap, env: &Env) -> Result<Value_, RefErr> {
        self.steps += 1;
        if self.steps > self.budget {
            return Err(RefErr::TooLarge);
        }
        let none = AnnMap::new();
        match e {
            E::Ann { pre, e, post } => {
                let mut own = AnnMap::new();
                for m in pre {
                    ann_extend(&mut own, m);
                }
                if let Some(m) = post {
                    ann_extend(&mut own, m);
                }
                let next = merged(a, &own);
                self.eval(e, &next, env)
            }
            E::Paren(i) => self.eval(i, a, env),
            E::Prim(k) => {
                let v = match k {
                    PrimK::Num => Val::PNum {
                        minimum: a_num(a, "minimum"),
                        maximum: a_num(a, "maximum"),
                        multiple_of: a_num(a, "multipleOf"),
                        example: a_num(a, "example"),
                    },
                    PrimK::Int => Val::PInt {
                        minimum: a_int(a, "minimum"),
                        maximum: a_int(a, "maximum"),
                        multiple_of: a_int(a, "multipleOf"),
                        example: a_int(a, "example"),
                    },
                    PrimK::Str => Val::PStr {
                        pattern: a_str(a, "pattern"),
                        enumeration: a_enum(a, "enum").unwrap_or_default(),
                        format: a_str(a, "format"),
                        example: a_str(a, "example"),
                        min_length: a_size(a, "minLength"),
                        max_length: a_size(a, "maxLength"),
                    },
                    PrimK::Bool => Val::PBool,
                    PrimK::Uri => Val::Uri(Box::new(UriV {
                        path: Vec::new(),
                        params: None,
                        example: a_str(a, "example"),
                    })),
                };
                Ok((v, a.clone()))
            }
            E::LitStr(s) => Ok((Val::Str(s.clone()), a.clone())),
            E::LitNum(n) => Ok((Val::Num(*n), a.clone())),
            E::LitStatus(c) => Ok((Val::Status(St::Range(*c)), a.clone())),
            E::UriT { segs, params } => {
                let mut path = Vec::new();
                for s in segs {
                    match s {
                        Seg::Lit(l) => path.push(SegV::Lit(l.clone())),
                        Seg::Var(v) => {
                            let pv = self.eval(v, &none, env)?;
                            path.push(SegV::Var(self.prop_of(pv)?));
                        }
                    }
                }
                let params = match params {
                    Some(ps) => {
                        let props = self.props(ps, env)?;
                        self.check_dup_props(&props, "dup-parameter-name");
                        Some(props)
                    }
                    None => None,
                };
                let u = UriV {
                    path,
                    params,
                    example: a_str(a, "example"),
                };
                self.check_uri(&u);
                Ok((Val::Uri(Box::new(u)), a.clone()))
            }
            E::Obj(ps) => {
                let props = self.props(ps, env)?;
                self.check_dup_props(&props, "dup-property-name");
                Ok((Val::Obj(props), a.clone()))
            }
            E::Arr(i) => {
                let v = self.eval(i, &none, env)?;
                Ok((Val::Arr(Box::new(self.schema_of(v)?)), a.clone()))
            }
            E::Prop { name, mark, rhs } => {
                let v = self.eval(rhs, &none, env)?;
                let schema = self.schema_of(v)?;
                Ok((
                    Val::Prop(Box::new(PropV {
                        name: name.clone(),
                        schema,
                        desc: a_str(a, "description"),
                        required: a_bool(a, "required").or(*mark),
                    })),
                    a.clone(),
                ))
            }
            E::Unary { e, required } => {
                let v = self.eval(e, &none, env)?;
                let mut p = self.prop_of(v)?;
                p.required = Some(*required);
                Ok((Val::Prop(Box::new(p)), a.clone()))
            }
            E::Op { op: OpK::Range, args } => {
                let mut r: RangesV = Vec::new();
                for x in args {
                    let v = self.eval(x, &none, env)?;
                    for (k, c) in self.ranges_of(v)? {
                        self.ranges_insert(&mut r, k, c);
                    }
                }
                Ok((Val::Ranges(r), a.clone()))
            }
            E::Op { op, args } => {
                let mut ss = Vec::new();
                for x in args {
                    let v = self.eval(x, &none, env)?;
                    ss.push(self.schema_of(v)?);
                }
                Ok((Val::Op(*op, ss), a.clone()))
            }
            E::Content { metas, body } => {
                let schema = match body {
                    Some(b) => {
                        let v = self.eval(b, &none, env)?;
                        Some(Box::new(self.schema_of(v)?))
                    }
                    None => None,
                };
                let mut c = ContentV {
                    status: if schema.is_none() { Some(St::Code(204)) } else { None },
                    schema,
                    desc: a_str(a, "description"),
                    examples: a_props(a, "examples"),
                    ..Default::default()
                };
                for (k, m) in metas {
                    let v = self.eval(m, &none, env)?;
                    match k {
                        MetaK::Media => match v.0 {
                            Val::Str(s) => c.media = Some(s),
                            o => return Err(RefErr::Undefined(format!("media not a string: {o:?}"))),
                        },
                        MetaK::Headers => match Self::unwrap_ref(v).0 {
                            Val::Obj(ps) => {
                                self.check_dup_props(&ps, "dup-header-name");
                                c.headers = Some(ps)
                            }
                            o => return Err(RefErr::Undefined(format!("headers not an object: {o:?}"))),
                        },
                        MetaK::Status => match v.0 {
                            Val::Status(s) => c.status = Some(s),
                            Val::Num(n) => {
                                if (100..=599).contains(&n) {
                                    c.status = Some(St::Code(n))
                                } else {
                                    return Err(RefErr::InvalidStatus(n));
                                }
                            }
                            o => return Err(RefErr::Undefined(format!("status: {o:?}"))),
                        },
                    }
                }
                Ok((Val::Content(Box::new(c)), a.clone()))
            }
            E::Xfer {
                methods,
                params,
                domain,
                range,
            } => {
                let mut ms = [false; 7];
                for m in methods {
                    ms[*m] = true;
                }
                let domain = match domain {
                    Some(d) => {
                        let v = self.eval(d, &none, env)?;
                        self.content_of(v)?
                    }
                    None => ContentV::default(),
                };
                let rv = self.eval(range, &none, env)?;
                let ranges = self.ranges_of(rv)?;
                let params = match params {
                    Some(ps) => {
                        let props = self.props(ps, env)?;
                        self.check_dup_props(&props, "dup-parameter-name");
                        Some(props)
                    }
                    None => None,
                };
                if let Some(h) = &domain.headers {
                    let h = h.clone();
                    self.check_dup_props(&h, "dup-header-name");
                }
                Ok((
                    Val::Xfer(Box::new(XferV {
                        methods: ms,
                        domain,
                        ranges,
                        params,
                        desc: a_str(a, "description"),
                        summary: a_str(a, "summary"),
                        tags: a_enum(a, "tags").unwrap_or_default(),
                        id: a_str(a, "operationId"),
                    })),
                    a.clone(),
                ))
            }
            E::Rel { uri, xfers } => {
                let uv = self.eval(uri, &none, env)?;
                let uri = self.uri_of(uv)?;
                let mut slots: [Option<Box<XferV>>; 7] = Default::default();
                for x in xfers {
                    let v = self.eval(x, &none, env)?;
                    let Val::Xfer(xf) = v.0 else {
                        return Err(RefErr::Undefined("not a transfer".into()));
                    };
                    for m in 0..7 {
                        if xf.methods[m] {
                            if slots[m].is_some() {
                                self.flag("dup-method-in-relation");
                            }
                            slots[m] = Some(xf.clone());
                        }
                    }
                }
                Ok((Val::Rel(Box::new(RelV { uri, xfers: slots })), a.clone()))
            }
            E::Var { target, .. } => match target {
                Target::Builtin(b) => Ok((Val::Builtin(b.clone()), a.clone())),
                Target::Param(..) | Target::Rec(_) => {
                    let Some((_, (v, pa))) = env.iter().rev().find(|(t, _)| t == target) else {
                        return Err(RefErr::Undefined(format!("unbound {target:?}")));
                    };
                    Ok((v.clone(), merged(pa, a)))
                }
                Target::Decl(d) => {
                    let decl = &self.p.decls[*d];
                    if decl.is_fun() {
                        return Ok((Val::Lambda(*d), a.clone()));
                    }
                    let mut d_ann = AnnMap::new();
                    for m in &decl.anns {
                        ann_extend(&mut d_ann, m);
                    }
                    let rhs_ann = merged(&d_ann, a);
                    if decl.is_ref() || self.recursive[*d] {
                        let key = if decl.is_ref() {
                            decl.name.clone()
                        } else {
                            format!("hash-d{d}")
                        };
                        if !self.comps.iter().any(|(k, _)| *k == key) {
                            self.comps.push((key.clone(), None));
                            let v = self.eval(&decl.rhs, &rhs_ann, &Vec::new())?;
                            let s = self.schema_of(v.clone())?;
                            let slot = self.comps.iter_mut().find(|(k, _)| *k == key).unwrap();
                            slot.1 = Some(s);
                            self.values.push((key.clone(), v));
                        }
                        let known = self.values.iter().find(|(k, _)| *k == key).map(|(_, v)| Box::new(v.clone()));
                        Ok((Val::Ref(key, known), rhs_ann))
                    } else {
                        self.eval(&decl.rhs, &rhs_ann, &Vec::new())
                    }
                }
            },
            E::App { f, args } => {
                let fv = self.eval(f, &none, env)?;
                let mut argv = Vec::new();
                for x in args {
                    argv.push(self.eval(x, &none, env)?);
                }
                match fv.0 {
                    Val::Lambda(d) => {
                        let decl = &self.p.decls[d];
                        if decl.params.len() != argv.len() {
                            return Err(RefErr::Undefined("arity".into()));
                        }
                        let mut d_ann = AnnMap::new();
                        for m in &decl.anns {
                            ann_extend(&mut d_ann, m);
                        }
                        let body_ann = merged(&d_ann, a);
                        let new_env: Env = argv
                            .into_iter()
                            .enumerate()
                            .map(|(i, v)| (Target::Param(d, i), v))
                            .collect();
                        self.eval(&decl.rhs, &body_ann, &new_env)
                    }
                    Val::Builtin(b) if b == "concat" => {
                        if argv.len() != 2 {
                            return Err(RefErr::Undefined("concat arity".into()));
                        }
                        let right = self.uri_of(argv.pop().unwrap())?;
                        let mut left = self.uri_of(argv.pop().unwrap())?;
                        if matches!(left.path.last(), Some(SegV::Lit(l)) if l.is_empty()) {
                            left.path.pop();
                        }
                        left.path.extend(right.path);
                        left.params = right.params;
                        left.example = None;
                        self.check_uri(&left);
                        Ok((Val::Uri(Box::new(left)), a.clone()))
                    }
                    o => Err(RefErr::Undefined(format!("not a function: {o:?}"))),
                }
            }
            E::Rec { id, body, .. } => {
                self.fresh += 1;
                self.rec_evaluations += 1;
                let key = format!("hash-r{}", self.fresh);
                let mut env2 = env.clone();
                env2.push((Target::Rec(*id), (Val::Ref(key.clone(), None), AnnMap::new())));
                let v = self.eval(body, a, &env2)?;
                let s = self.schema_of(v.clone())?;
                self.comps.push((key.clone(), Some(s)));
                Ok((Val::Ref(key, Some(Box::new(v))), AnnMap::new()))
            }
        }
    }

    /// Evaluates the main module's resources. Returns the relations in order.
    pub fn eval_program(&mut self) -> Result<Vec<RelV>, RefErr> {
        let mut rels = Vec::new();
        let p = self.p;
        for s in &p.modules[0].stmts {
            if let Stmt::Res { e } = s {
                let mut v = self.eval(e, &AnnMap::new(), &Vec::new())?;
                while let Val::Ref(_, Some(inner)) = v.0 {
                    v = *inner;
                }
                match v.0 {
                    Val::Rel(r) => rels.push(*r),
                    Val::Uri(u) => rels.push(RelV {
                        uri: *u,
                        xfers: Default::default(),
                    }),
                    o => return Err(RefErr::Undefined(format!("res of {o:?}"))),
                }
            }
        }
        Ok(rels)
    }
}

// ---------------------------------------------------------------------------------------------------
// Emitter: reference values -> expected OpenAPI JSON
// ---------------------------------------------------------------------------------------------------

pub struct Emitter<'a> {
    comps: &'a [(String, Option<SchemaV>)],
}

fn put(m: &mut Map<String, Value>, k: &str, v: Option<Value>) {
    if let Some(v) = v {
        m.insert(k.to_owned(), v);
    }
}

fn is_atomic(s: &SchemaV) -> bool {
    matches!(
        s.expr,
        Val::PNum { .. } | Val::PInt { .. } | Val::PStr { .. } | Val::PBool | Val::Uri(_) | Val::Rel(_)
    )
}

pub fn uri_pattern(u: &UriV) -> String {
    let mut b = String::new();
    for s in &u.path {
        b.push('/');
        match s {
            SegV::Lit(l) => b.push_str(l),
            SegV::Var(p) => {
                b.push('{');
                b.push_str(&p.name);
                b.push('}');
            }
        }
    }
    b
}

impl<'a> Emitter<'a> {
    pub fn new(comps: &'a [(String, Option<SchemaV>)]) -> Self {
        Emitter { comps }
    }

    fn comp(&self, key: &str) -> Option<&SchemaV> {
        self.comps.iter().find(|(k, _)| k == key).and_then(|(_, v)| v.as_ref())
    }

    fn uri_schema(&self, u: &UriV) -> Map<String, Value> {
        let mut m = Map::new();
        let example = u.example.clone().or_else(|| {
            if u.path.is_empty() {
                None
            } else {
                let mut b = String::new();
                for s in &u.path {
                    b.push('/');
                    match s {
                        SegV::Lit(l) => b.push_str(l),
                        SegV::Var(p) => {
                            let t = match p.schema.expr {
                                Val::PNum { .. } => "number",
                                Val::PStr { .. } => "string",
                                Val::PBool => "boolean",
                                Val::PInt { .. } => "integer",
                                _ => "unknown",
                            };
                            b.push_str(&format!("_{}_{}_", p.name, t));
                        }
                    }
                }
                Some(b)
            }
        });
        put(&mut m, "example", example.map(Value::from));
        m.insert("type".into(), json!("string"));
        m.insert("format".into(), json!("uri-reference"));
        m
    }

    fn object_schema(&self, ps: &[PropV]) -> Map<String, Value> {
        let mut m = Map::new();
        m.insert("type".into(), json!("object"));
        let mut props = Map::new();
        for p in ps {
            props.insert(p.name.clone(), self.schema(&p.schema));
        }
        if !props.is_empty() {
            m.insert("properties".into(), Value::Object(props));
        }
        let req: Vec<Value> = ps
            .iter()
            .filter(|p| p.required.or(p.schema.required).unwrap_or(false))
            .map(|p| json!(p.name))
            .collect();
        if !req.is_empty() {
            m.insert("required".into(), Value::Array(req));
        }
        m
    }

    fn value_schema(&self, s: &SchemaV) -> Value {
        let mut m = match &s.expr {
            Val::PNum {
                minimum,
                maximum,
                multiple_of,
                example,
            } => {
                let mut m = Map::new();
                put(&mut m, "example", example.map(|x| json!(x)));
                m.insert("type".into(), json!("number"));
                put(&mut m, "multipleOf", multiple_of.map(|x| json!(x)));
                put(&mut m, "minimum", minimum.map(|x| json!(x)));
                put(&mut m, "maximum", maximum.map(|x| json!(x)));
                m
            }
            Val::PInt {
                minimum,
                maximum,
                multiple_of,
                example,
            } => {
                let mut m = Map::new();
                put(&mut m, "example", example.map(|x| json!(x)));
                m.insert("type".into(), json!("integer"));
                put(&mut m, "multipleOf", multiple_of.map(|x| json!(x)));
                put(&mut m, "minimum", minimum.map(|x| json!(x)));
                put(&mut m, "maximum", maximum.map(|x| json!(x)));
                m
            }
            Val::PStr {
                pattern,
                enumeration,
                format,
                example,
                min_length,
                max_length,
            } => {
                let mut m = Map::new();
                let ex = example.clone().or_else(|| enumeration.first().cloned());
                put(&mut m, "example", ex.map(Value::from));
                m.insert("type".into(), json!("string"));
                put(&mut m, "format", format.clone().map(Value::from));
                put(&mut m, "pattern", pattern.clone().map(Value::from));
                if !enumeration.is_empty() {
                    m.insert("enum".into(), json!(enumeration));
                }
                put(&mut m, "minLength", min_length.map(|x| json!(x)));
                put(&mut m, "maxLength", max_length.map(|x| json!(x)));
                m
            }
            Val::PBool => {
                let mut m = Map::new();
                m.insert("type".into(), json!("boolean"));
                m
            }
            Val::Uri(u) => self.uri_schema(u),
            Val::Rel(r) => self.uri_schema(&r.uri),
            Val::Obj(ps) => self.object_schema(ps),
            Val::Arr(i) => {
                let mut m = Map::new();
                m.insert("type".into(), json!("array"));
                m.insert("items".into(), self.schema(i));
                m
            }
            Val::Op(op, ss) => {
                let key = match op {
                    OpK::Join => "allOf",
                    OpK::Sum => "oneOf",
                    OpK::Any => "anyOf",
                    OpK::Range => "x-invalid-range",
                };
                let mut m = Map::new();
                m.insert(key.into(), Value::Array(ss.iter().map(|s| self.schema(s)).collect()));
                m
            }
            _ => {
                let mut m = Map::new();
                m.insert("x-invalid".into(), json!(true));
                m
            }
        };
        put(&mut m, "description", s.desc.clone().map(Value::from));
        put(&mut m, "title", s.title.clone().map(Value::from));
        Value::Object(m)
    }

    pub fn schema(&self, s: &SchemaV) -> Value {
        if let Val::Ref(key, _) = &s.expr {
            if key.starts_with("hash-") {
                if let Some(c) = self.comp(key) {
                    if is_atomic(c) {
                        return self.value_schema(c);
                    }
                }
            }
            let name = key.strip_prefix('@').unwrap_or(key);
            json!({ "$ref": format!("#/components/schemas/{name}") })
        } else {
            self.value_schema(s)
        }
    }

    fn param(&self, p: &PropV, loc: &str, required: bool) -> Value {
        let mut m = Map::new();
        m.insert("in".into(), json!(loc));
        m.insert("name".into(), json!(p.name));
        put(&mut m, "description", p.desc.clone().map(Value::from));
        if required {
            m.insert("required".into(), json!(true));
        }
        m.insert("schema".into(), self.schema(&p.schema));
        m.insert("style".into(), json!(if loc == "query" { "form" } else { "simple" }));
        Value::Object(m)
    }

    fn examples(&self, c: &ContentV) -> Option<Value> {
        let ex = c
            .examples
            .as_ref()
            .or_else(|| c.schema.as_ref().and_then(|s| s.examples.as_ref()))?;
        if ex.is_empty() {
            return None;
        }
        let mut m = Map::new();
        for (k, v) in ex {
            m.insert(k.clone(), json!({ "externalValue": v }));
        }
        Some(Value::Object(m))
    }

    fn media_obj(&self, c: &ContentV, schema: &SchemaV) -> Value {
        let mut m = Map::new();
        m.insert("schema".into(), self.schema(schema));
        put(&mut m, "examples", self.examples(c));
        Value::Object(m)
    }

    fn status_key(s: &St) -> String {
        match s {
            St::Code(c) => c.to_string(),
            St::Range(r) => format!("{r}XX"),
        }
    }

    fn responses(&self, x: &XferV) -> Value {
        let mut out: Vec<(String, Map<String, Value>)> = Vec::new();
        for ((status, media), c) in &x.ranges {
            let key = match status {
                Some(s) => Self::status_key(s),
                None => "default".to_owned(),
            };
            let idx = match out.iter().position(|(k, _)| *k == key) {
                Some(i) => i,
                None => {
                    out.push((key, Map::new()));
                    out.len() - 1
                }
            };
            let res = &mut out[idx].1;
            if let Some(s) = &c.schema {
                let mt = media.clone().unwrap_or_else(|| "application/json".to_owned());
                let content = res.entry("content").or_insert_with(|| json!({}));
                content.as_object_mut().unwrap().insert(mt, self.media_obj(c, s));
            }
            // headers and description are those of the last content for this status
            res.remove("headers");
            if let Some(hs) = &c.headers {
                if !hs.is_empty() {
                    let mut hm = Map::new();
                    for p in hs {
                        let mut h = Map::new();
                        put(&mut h, "description", p.desc.clone().map(Value::from));
                        h.insert("style".into(), json!("simple"));
                        if p.required.unwrap_or(false) {
                            h.insert("required".into(), json!(true));
                        }
                        h.insert("schema".into(), self.schema(&p.schema));
                        hm.insert(p.name.clone(), Value::Object(h));
                    }
                    res.insert("headers".into(), Value::Object(hm));
                }
            }
            res.insert("description".into(), json!(c.desc.clone().unwrap_or_default()));
        }
        Value::Object(out.into_iter().map(|(k, v)| (k, Value::Object(v))).collect())
    }

    fn seg_label(s: &SegV) -> String {
        match s {
            SegV::Lit(l) if l.is_empty() => "root".to_owned(),
            SegV::Lit(l) => l.to_lowercase(),
            SegV::Var(p) => p.name.to_lowercase(),
        }
    }

    fn operation(&self, x: &XferV, method: usize, uri: &UriV) -> Value {
        let id = x.id.clone().unwrap_or_else(|| {
            std::iter::once(METHODS[method].to_owned())
                .chain(uri.path.iter().map(Self::seg_label))
                .collect::<Vec<_>>()
                .join("-")
        });
        let summary = x.summary.clone().or_else(|| x.desc.clone()).unwrap_or_else(|| id.clone());
        let mut m = Map::new();
        if !x.tags.is_empty() {
            m.insert("tags".into(), json!(x.tags));
        }
        m.insert("summary".into(), json!(summary));
        put(&mut m, "description", x.desc.clone().map(Value::from));
        m.insert("operationId".into(), json!(id));
        let mut params = Vec::new();
        if let Some(ps) = &x.params {
            for p in ps {
                params.push(self.param(p, "query", p.required.unwrap_or(false)));
            }
        }
        if let Some(hs) = &x.domain.headers {
            for p in hs {
                params.push(self.param(p, "header", p.required.unwrap_or(false)));
            }
        }
        if !params.is_empty() {
            m.insert("parameters".into(), Value::Array(params));
        }
        if let Some(s) = &x.domain.schema {
            let media = x.domain.media.clone().unwrap_or_else(|| "application/json".to_owned());
            let mut rb = Map::new();
            put(&mut rb, "description", x.domain.desc.clone().map(Value::from));
            let mut content = Map::new();
            content.insert(media, self.media_obj(&x.domain, s));
            rb.insert("content".into(), Value::Object(content));
            m.insert("requestBody".into(), Value::Object(rb));
        }
        m.insert("responses".into(), self.responses(x));
        Value::Object(m)
    }

    fn path_item(&self, r: &RelV) -> Value {
        let mut m = Map::new();
        for (i, x) in r.xfers.iter().enumerate() {
            if let Some(x) = x {
                m.insert(METHODS[i].to_owned(), self.operation(x, i, &r.uri));
            }
        }
        let mut params = Vec::new();
        for s in &r.uri.path {
            if let SegV::Var(p) = s {
                params.push(self.param(p, "path", true));
            }
        }
        if let Some(ps) = &r.uri.params {
            for p in ps {
                params.push(self.param(p, "query", p.required.unwrap_or(false)));
            }
        }
        if !params.is_empty() {
            m.insert("parameters".into(), Value::Array(params));
        }
        Value::Object(m)
    }

    pub fn document(&self, rels: &[RelV]) -> Value {
        let mut paths = Map::new();
        for r in rels {
            paths.insert(uri_pattern(&r.uri), self.path_item(r));
        }
        let mut schemas = Map::new();
        for (k, v) in self.comps {
            let Some(s) = v else { continue };
            if k.starts_with("hash-") && is_atomic(s) {
                continue;
            }
            let name = k.strip_prefix('@').unwrap_or(k).to_owned();
            schemas.insert(name, self.schema(s));
        }
        let mut comps = Map::new();
        if !schemas.is_empty() {
            comps.insert("schemas".into(), Value::Object(schemas));
        }
        json!({
            "openapi": "3.0.3",
            "info": {"title": "OpenAPI definition", "version": "0.1.0"},
            "servers": [{"url": "/"}],
            "paths": paths,
            "components": comps,
        })
    }
}

/// The expected outcome for a program.
#[derive(Debug, Clone)]
pub enum Expected {
    Doc {
        doc: Value,
        rec_evaluations: usize,
        implicit_components: usize,
        flags: Vec<String>,
    },
    /// Evaluation must fail with the located error "invalid literal".
    InvalidStatus(u64),
}

pub fn expected(p: &Program) -> Result<Expected, RefErr> {
    let mut ev = RefEval::new(p);
    match ev.eval_program() {
        Ok(rels) => {
            let em = Emitter::new(&ev.comps);
            let doc = em.document(&rels);
            let implicit = ev
                .comps
                .iter()
                .filter(|(k, v)| k.starts_with("hash-") && v.as_ref().map(|s| !is_atomic(s)).unwrap_or(false))
                .count();
            let mut flags = ev.flags.clone();
            let pats: Vec<String> = rels.iter().map(|r| uri_pattern(&r.uri)).collect();
            for (i, p) in pats.iter().enumerate() {
                if pats[..i].contains(p) {
                    flags.push("dup-path".to_owned());
                    break;
                }
            }
            let mut ids: Vec<String> = Vec::new();
            let mut explicit_ids: Vec<String> = Vec::new();
            for r in &rels {
                for (m, x) in r.xfers.iter().enumerate() {
                    if let Some(x) = x {
                        match &x.id {
                            Some(i) => explicit_ids.push(i.clone()),
                            None => ids.push(
                                std::iter::once(METHODS[m].to_owned())
                                    .chain(r.uri.path.iter().map(Emitter::seg_label))
                                    .collect::<Vec<_>>()
                                    .join("-"),
                            ),
                        }
                    }
                }
            }
            let all: Vec<&String> = ids.iter().chain(explicit_ids.iter()).collect();
            for (i, x) in all.iter().enumerate() {
                if all[..i].contains(x) {
                    flags.push("dup-operation-id".to_owned());
                    break;
                }
            }
            Ok(Expected::Doc {
                doc,
                rec_evaluations: ev.rec_evaluations,
                implicit_components: implicit,
                flags,
            })
        }
        Err(RefErr::InvalidStatus(n)) => Ok(Expected::InvalidStatus(n)),
        Err(e) => Err(e),
    }
}
