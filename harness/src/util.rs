//! Small shared utilities: PRNG, hashing, statistics, panic capture.

use serde_json::{json, Value};
use std::cell::RefCell;
use std::collections::BTreeMap;
use std::hash::{Hash, Hasher};

/// Deterministic PRNG (splitmix64 seeding + xorshift64*).
#[derive(Clone, Debug)]
pub struct Rng(u64);

fn splitmix(mut z: u64) -> u64 {
    z = z.wrapping_add(0x9E3779B97F4A7C15);
    z = (z ^ (z >> 30)).wrapping_mul(0xBF58476D1CE4E5B9);
    z = (z ^ (z >> 27)).wrapping_mul(0x94D049BB133111EB);
    z ^ (z >> 31)
}

impl Rng {
    pub fn new(seed: u64) -> Self {
        let s = splitmix(seed);
        Rng(if s == 0 { 0x1234_5678_9abc_def1 } else { s })
    }
    /// A PRNG for one case: a pure function of (seed, salt, index).
    pub fn for_case(seed: u64, salt: &str, idx: u64) -> Self {
        let h = hash64(&(seed, salt, idx));
        Rng::new(h)
    }
    pub fn next(&mut self) -> u64 {
        let mut x = self.0;
        x ^= x >> 12;
        x ^= x << 25;
        x ^= x >> 27;
        self.0 = x;
        x.wrapping_mul(0x2545F4914F6CDD1D)
    }
    /// Uniform in [0, n). n must be > 0.
    pub fn below(&mut self, n: usize) -> usize {
        debug_assert!(n > 0);
        (self.next() % (n as u64)) as usize
    }
    pub fn range(&mut self, lo: usize, hi_incl: usize) -> usize {
        lo + self.below(hi_incl - lo + 1)
    }
    pub fn chance(&mut self, num: u32, den: u32) -> bool {
        (self.next() % den as u64) < num as u64
    }
    pub fn pick<'a, T>(&mut self, xs: &'a [T]) -> &'a T {
        &xs[self.below(xs.len())]
    }
    pub fn shuffle<T>(&mut self, xs: &mut [T]) {
        for i in (1..xs.len()).rev() {
            let j = self.below(i + 1);
            xs.swap(i, j);
        }
    }
}

/// Deterministic 64-bit hash (SipHash with fixed keys).
pub fn hash64<T: Hash + ?Sized>(t: &T) -> u64 {
    #[allow(deprecated)]
    let mut h = std::hash::SipHasher::new_with_keys(0x0a1b2c3d, 0x4e5f6071);
    t.hash(&mut h);
    h.finish()
}

/// Per-run statistics, mergeable across workers.
#[derive(Clone, Debug, Default)]
pub struct Stats {
    pub counters: BTreeMap<String, u64>,
    pub maxes: BTreeMap<String, u64>,
    /// Content hashes of distinct non-trivial cases (capped by the producer).
    pub hashes: Vec<u64>,
    pub samples: Vec<Value>,
    pub hash_cap: usize,
    pub sample_cap: usize,
}

impl Stats {
    pub fn new() -> Self {
        Stats {
            hash_cap: 512,
            sample_cap: 3,
            ..Default::default()
        }
    }
    pub fn inc(&mut self, k: &str) {
        self.add(k, 1);
    }
    pub fn add(&mut self, k: &str, n: u64) {
        if let Some(v) = self.counters.get_mut(k) {
            *v += n;
        } else {
            self.counters.insert(k.to_owned(), n);
        }
    }
    pub fn max(&mut self, k: &str, n: u64) {
        let e = self.maxes.entry(k.to_owned()).or_insert(0);
        if n > *e {
            *e = n;
        }
    }
    pub fn get(&self, k: &str) -> u64 {
        self.counters.get(k).copied().unwrap_or(0)
    }
    pub fn get_max(&self, k: &str) -> u64 {
        self.maxes.get(k).copied().unwrap_or(0)
    }
    /// Records a non-trivial case by content hash.
    pub fn nontrivial(&mut self, h: u64) {
        self.inc("nontrivial");
        if self.hashes.len() < self.hash_cap {
            self.hashes.push(h);
        }
    }
    pub fn sample(&mut self, v: impl FnOnce() -> Value) {
        if self.samples.len() < self.sample_cap {
            self.samples.push(v());
        }
    }
    pub fn merge(&mut self, o: &Stats) {
        for (k, v) in &o.counters {
            self.add(k, *v);
        }
        for (k, v) in &o.maxes {
            self.max(k, *v);
        }
        self.hashes.extend_from_slice(&o.hashes);
        for s in &o.samples {
            if self.samples.len() < self.sample_cap.max(6) {
                self.samples.push(s.clone());
            }
        }
    }
    pub fn to_json(&self) -> Value {
        json!({
            "c": self.counters,
            "m": self.maxes,
            "h": self.hashes.iter().map(|h| format!("{h:x}")).collect::<Vec<_>>(),
            "s": self.samples,
        })
    }
    pub fn from_json(v: &Value) -> Stats {
        let mut s = Stats::new();
        if let Some(c) = v.get("c").and_then(Value::as_object) {
            for (k, n) in c {
                s.counters.insert(k.clone(), n.as_u64().unwrap_or(0));
            }
        }
        if let Some(c) = v.get("m").and_then(Value::as_object) {
            for (k, n) in c {
                s.maxes.insert(k.clone(), n.as_u64().unwrap_or(0));
            }
        }
        if let Some(h) = v.get("h").and_then(Value::as_array) {
            for x in h {
                if let Some(x) = x.as_str().and_then(|x| u64::from_str_radix(x, 16).ok()) {
                    s.hashes.push(x);
                }
            }
        }
        if let Some(h) = v.get("s").and_then(Value::as_array) {
            s.samples = h.clone();
        }
        s
    }
    pub fn distinct(&self) -> u64 {
        let mut h = self.hashes.clone();
        h.sort_unstable();
        h.dedup();
        h.len() as u64
    }
}

/// Information about a captured panic.
#[derive(Clone, Debug)]
pub struct PanicInfo {
    pub message: String,
    pub location: String,
}

impl PanicInfo {
    /// A stable signature: the location (file:line) and the message prefix up to the first ':' or 60 chars.
    pub fn signature(&self) -> String {
        // "not a relation: Recursion(Ident(..." -> "not a relation: Recursion": the message up to the payload
        let mut m: String = self.message.chars().take(80).collect();
        if let Some(i) = m.find(|c| c == '(' || c == '{' || c == '[' || c == '\n') {
            m.truncate(i);
        }
        let m = m.trim_end();
        // file without the line number: stable under unrelated edits of the same file
        let file = self.location.rsplit_once(':').map(|(f, _)| f).unwrap_or(&self.location);
        format!("{} @ {}", m, file)
    }
    /// The message class only (up to the first ':').
    pub fn class(&self) -> String {
        let m: String = self.message.chars().take(60).collect();
        let m = m.split(':').next().unwrap_or("").trim().to_owned();
        let file = self.location.rsplit_once(':').map(|(f, _)| f).unwrap_or(&self.location);
        format!("{} @ {}", m, file)
    }
}

thread_local! {
    static LAST_PANIC: RefCell<Option<PanicInfo>> = const { RefCell::new(None) };
}

/// Installs a silent panic hook that records message and location per thread.
pub fn install_panic_hook() {
    // The playground entry point replaces the process-wide panic hook on its first call
    // (console_error_panic_hook::set_once): get that over with before installing the recording hook.
    static PLAYGROUND_HOOK: std::sync::Once = std::sync::Once::new();
    PLAYGROUND_HOOK.call_once(|| {
        let _ = oal_wasm::compile("");
    });
    std::panic::set_hook(Box::new(|info| {
        let message = if let Some(s) = info.payload().downcast_ref::<&str>() {
            (*s).to_owned()
        } else if let Some(s) = info.payload().downcast_ref::<String>() {
            s.clone()
        } else {
            "<non-string panic payload>".to_owned()
        };
        let location = info
            .location()
            .map(|l| {
                let f = l.file();
                // Strip the absolute prefix of the repository so signatures are location-independent.
                let f = match f.find("/oal-") {
                    Some(i) => &f[i + 1..],
                    None => f,
                };
                format!("{}:{}", f, l.line())
            })
            .unwrap_or_else(|| "<unknown>".to_owned());
        LAST_PANIC.with(|p| *p.borrow_mut() = Some(PanicInfo { message, location }));
    }));
}

/// Runs `f`, converting a panic into `Err(PanicInfo)`.
pub fn guard<T>(f: impl FnOnce() -> T) -> Result<T, PanicInfo> {
    LAST_PANIC.with(|p| *p.borrow_mut() = None);
    match std::panic::catch_unwind(std::panic::AssertUnwindSafe(f)) {
        Ok(v) => Ok(v),
        Err(_) => Err(LAST_PANIC
            .with(|p| p.borrow_mut().take())
            .unwrap_or(PanicInfo {
                message: "<panic without hook>".into(),
                location: "<unknown>".into(),
            })),
    }
}

/// Truncates a string for display in evidence/replay files.
pub fn clip(s: &str, n: usize) -> String {
    if s.chars().count() <= n {
        s.to_owned()
    } else {
        let t: String = s.chars().take(n).collect();
        format!("{t}…[{} bytes]", s.len())
    }
}

pub fn verif_root() -> std::path::PathBuf {
    std::env::var("OALV_ROOT")
        .map(Into::into)
        .unwrap_or_else(|_| "/verif".into())
}

pub fn repo_root() -> std::path::PathBuf {
    std::env::var("OALV_REPO")
        .map(Into::into)
        .unwrap_or_else(|_| "/repo".into())
}

/// Puts the child in its own process group, so that `kill_tree` reaches what it spawned itself
/// (a worker killed by a watchdog must not leave a spinning `oal-cli` behind).
pub fn own_group(cmd: &mut std::process::Command) -> &mut std::process::Command {
    use std::os::unix::process::CommandExt;
    cmd.process_group(0)
}

/// Kills a child spawned with `own_group` together with its descendants.
pub fn kill_tree(child: &mut std::process::Child) {
    let pid = child.id();
    let _ = std::process::Command::new("kill")
        .arg("-9")
        .arg("--")
        .arg(format!("-{pid}"))
        .stdout(std::process::Stdio::null())
        .stderr(std::process::Stdio::null())
        .status();
    let _ = child.kill();
}
