pub mod ast;
pub mod print;
pub mod wt;
pub mod mutate;
pub mod tok;
pub mod rewrite;
pub mod base;
pub mod twin;
