//! G-mut: mutators without reference semantics (kind-breaking AST mutations, token-level and byte-level
//! mutations of texts).

use super::ast::*;
use crate::util::Rng;

fn nth_mut<'a>(e: &'a mut E, n: &mut usize) -> Option<&'a mut E> {
    if *n == 0 {
        return Some(e);
    }
    *n -= 1;
    for c in e.children_mut() {
        if let Some(x) = nth_mut(c, n) {
            return Some(x);
        }
    }
    None
}

fn nth<'a>(e: &'a E, n: &mut usize) -> Option<&'a E> {
    if *n == 0 {
        return Some(e);
    }
    *n -= 1;
    for c in e.children() {
        if let Some(x) = nth(c, n) {
            return Some(x);
        }
    }
    None
}

/// Roots of all expressions of a program: (is_decl, index).
fn roots(p: &Program) -> Vec<(bool, usize, usize)> {
    let mut r = Vec::new();
    for d in 0..p.decls.len() {
        r.push((true, d, 0));
    }
    for (mi, m) in p.modules.iter().enumerate() {
        for (si, s) in m.stmts.iter().enumerate() {
            if matches!(s, Stmt::Res { .. }) {
                r.push((false, mi, si));
            }
        }
    }
    r
}

fn root_mut<'a>(p: &'a mut Program, r: (bool, usize, usize)) -> &'a mut E {
    if r.0 {
        &mut p.decls[r.1].rhs
    } else {
        match &mut p.modules[r.1].stmts[r.2] {
            Stmt::Res { e } => e,
            _ => unreachable!(),
        }
    }
}

fn root_ref<'a>(p: &'a Program, r: (bool, usize, usize)) -> &'a E {
    if r.0 {
        &p.decls[r.1].rhs
    } else {
        match &p.modules[r.1].stmts[r.2] {
            Stmt::Res { e } => e,
            _ => unreachable!(),
        }
    }
}

/// Small expressions of every kind, used as kind-breaking replacements.
pub fn snippets(rng: &mut Rng) -> E {
    let c = |metas: Vec<(MetaK, E)>, body: Option<E>| E::Content {
        metas,
        body: body.map(Box::new),
    };
    let uri = |s: &str| E::UriT {
        segs: vec![Seg::Lit(s.to_owned())],
        params: None,
    };
    let xfer = |r: E| E::Xfer {
        methods: vec![0],
        params: None,
        domain: None,
        range: Box::new(r),
    };
    match rng.below(26) {
        0 => c(vec![], None),
        1 => c(vec![], Some(E::Obj(vec![]))),
        2 => E::Op {
            op: OpK::Range,
            args: vec![c(vec![], Some(E::Obj(vec![]))), c(vec![(MetaK::Status, E::LitNum(400))], Some(E::Obj(vec![])))],
        },
        3 => E::LitStr("text/plain".into()),
        4 => E::LitNum(*rng.pick(&[0u64, 200, 404, 600, 99999])),
        5 => E::LitStatus(rng.range(1, 5) as u8),
        6 => xfer(c(vec![], None)),
        7 => E::Rel {
            uri: Box::new(uri("m")),
            xfers: vec![xfer(c(vec![], None))],
        },
        8 => uri("u"),
        9 => E::Prim(*rng.pick(&[PrimK::Num, PrimK::Str, PrimK::Bool, PrimK::Int, PrimK::Uri])),
        10 => E::Obj(vec![]),
        11 => E::Arr(Box::new(E::Prim(PrimK::Num))),
        12 => E::Prop {
            name: "mp".into(),
            mark: None,
            rhs: Box::new(E::Prim(PrimK::Str)),
        },
        13 => E::Op {
            op: OpK::Join,
            args: vec![E::Obj(vec![]), E::Obj(vec![])],
        },
        14 => E::Op {
            op: OpK::Any,
            args: vec![E::Obj(vec![]), E::Prim(PrimK::Num)],
        },
        15 => E::Op {
            op: OpK::Sum,
            args: vec![E::Prim(PrimK::Str), E::Prim(PrimK::Num)],
        },
        16 => E::Unary {
            e: Box::new(E::Prop {
                name: "mq".into(),
                mark: None,
                rhs: Box::new(E::Obj(vec![])),
            }),
            required: true,
        },
        17 => E::Rec {
            binder: "zr".into(),
            id: 9000,
            body: Box::new(E::Obj(vec![E::Prop {
                name: "n".into(),
                mark: None,
                rhs: Box::new(E::var("zr", Target::Rec(9000))),
            }])),
        },
        18 => E::Rec {
            binder: "zu".into(),
            id: 9001,
            body: Box::new(uri("ru")),
        },
        19 => E::App {
            f: Box::new(E::var("concat", Target::Builtin("concat".into()))),
            args: vec![uri("a"), uri("b")],
        },
        20 => E::App {
            f: Box::new(E::var("concat", Target::Builtin("concat".into()))),
            args: vec![uri("a")],
        },
        21 => c(
            vec![(MetaK::Headers, E::Op {
                op: OpK::Join,
                args: vec![E::Obj(vec![]), E::Obj(vec![])],
            })],
            Some(E::Obj(vec![])),
        ),
        22 => c(vec![(MetaK::Media, E::LitNum(3))], None),
        23 => E::UriT {
            segs: vec![Seg::Var(Box::new(E::Prop {
                name: "v".into(),
                mark: None,
                rhs: Box::new(E::Obj(vec![])),
            }))],
            params: None,
        },
        24 => E::var("concat", Target::Builtin("concat".into())),
        _ => E::Paren(Box::new(E::Obj(vec![]))),
    }
}

/// A variable referring to any declaration (of any kind) visible in module m, or a parameter of decl d.
fn any_var(p: &Program, module: usize, decl: Option<DeclId>, rng: &mut Rng) -> Option<E> {
    let mut cands: Vec<E> = Vec::new();
    for (d, dd) in p.decls.iter().enumerate() {
        if dd.module == module {
            cands.push(E::var(&dd.name, Target::Decl(d)));
        }
    }
    for s in &p.modules[module].stmts {
        if let Stmt::Use { target, qual, .. } = s {
            for (d, dd) in p.decls.iter().enumerate() {
                if dd.module == *target {
                    cands.push(E::Var {
                        qual: qual.clone(),
                        name: dd.name.clone(),
                        target: Target::Decl(d),
                    });
                }
            }
        }
    }
    if let Some(d) = decl {
        for (i, n) in p.decls[d].params.iter().enumerate() {
            cands.push(E::var(n, Target::Param(d, i)));
        }
    }
    if cands.is_empty() {
        None
    } else {
        Some(rng.pick(&cands).clone())
    }
}

/// Applies one kind-breaking mutation. Returns a description of what was done.
pub fn mutate_ast(p: &mut Program, rng: &mut Rng) -> String {
    let rs = roots(p);
    if rs.is_empty() {
        return "none".into();
    }
    let r = *rng.pick(&rs);
    let module = if r.0 { p.decls[r.1].module } else { r.1 };
    let decl = if r.0 { Some(r.1) } else { None };
    let size = root_ref(p, r).size();
    match rng.below(11) {
        10 => {
            // a postfix mark directly on an application argument (printed without parentheses for mutants)
            let mut apps = Vec::new();
            let mut k = 0;
            root_ref(p, r).visit(&mut |x| {
                if matches!(x, E::App { .. }) {
                    apps.push(k);
                }
                k += 1;
            });
            if apps.is_empty() {
                return "none".into();
            }
            let mut n = *rng.pick(&apps);
            let required = rng.chance(1, 2);
            let as_prop = rng.chance(1, 2);
            if let Some(E::App { args, .. }) = nth_mut(root_mut(p, r), &mut n) {
                if !args.is_empty() {
                    let i = rng.below(args.len());
                    let inner = std::mem::replace(&mut args[i], E::Obj(vec![]));
                    let inner = if as_prop {
                        E::Paren(Box::new(E::Prop {
                            name: "um".into(),
                            mark: None,
                            rhs: Box::new(inner),
                        }))
                    } else {
                        inner
                    };
                    args[i] = E::Unary {
                        e: Box::new(inner),
                        required,
                    };
                }
            }
            "postfix-mark-on-argument".into()
        }
        0..=3 => {
            // replace a subterm by a snippet of arbitrary kind
            let s = snippets(rng);
            let mut n = rng.below(size);
            if let Some(x) = nth_mut(root_mut(p, r), &mut n) {
                *x = s;
            }
            "replace-by-snippet".into()
        }
        4..=5 => {
            // replace a subterm by a variable of arbitrary kind
            if let Some(v) = any_var(p, module, decl, rng) {
                let mut n = rng.below(size);
                if let Some(x) = nth_mut(root_mut(p, r), &mut n) {
                    *x = v;
                }
            }
            "replace-by-variable".into()
        }
        6..=7 => {
            // swap two subterms (possibly of different roots)
            let r2 = *rng.pick(&rs);
            let size2 = root_ref(p, r2).size();
            let mut i = rng.below(size);
            let mut j = rng.below(size2);
            let a = nth(root_ref(p, r), &mut i.clone()).cloned();
            let b = nth(root_ref(p, r2), &mut j.clone()).cloned();
            if let (Some(a), Some(b)) = (a, b) {
                if let Some(x) = nth_mut(root_mut(p, r), &mut i) {
                    *x = b;
                }
                if let Some(y) = nth_mut(root_mut(p, r2), &mut j) {
                    *y = a;
                }
            }
            "swap-subterms".into()
        }
        8 => {
            // change the arity of an application, or apply a non-function
            let mut apps = Vec::new();
            let mut k = 0;
            root_ref(p, r).visit(&mut |x| {
                if matches!(x, E::App { .. }) {
                    apps.push(k);
                }
                k += 1;
            });
            if let Some(&i) = apps.first() {
                let mut n = i;
                let extra = snippets(rng);
                if let Some(E::App { args, .. }) = nth_mut(root_mut(p, r), &mut n) {
                    if rng.chance(1, 2) && !args.is_empty() {
                        args.pop();
                    } else {
                        args.push(extra);
                    }
                }
                "change-arity".into()
            } else if let Some(v) = any_var(p, module, decl, rng) {
                let mut n = rng.below(size);
                let arg = snippets(rng);
                if let Some(x) = nth_mut(root_mut(p, r), &mut n) {
                    *x = E::App {
                        f: Box::new(v),
                        args: vec![arg],
                    };
                }
                "apply-anything".into()
            } else {
                "none".into()
            }
        }
        _ => {
            // wrap a subterm in rec / array / content / property
            let mut n = rng.below(size);
            let k = rng.below(5);
            if let Some(x) = nth_mut(root_mut(p, r), &mut n) {
                let inner = std::mem::replace(x, E::Obj(vec![]));
                *x = match k {
                    0 => E::Rec {
                        binder: "zw".into(),
                        id: 9100,
                        body: Box::new(inner),
                    },
                    1 => E::Arr(Box::new(inner)),
                    2 => E::Content {
                        metas: vec![],
                        body: Some(Box::new(inner)),
                    },
                    3 => E::Prop {
                        name: "w".into(),
                        mark: None,
                        rhs: Box::new(inner),
                    },
                    _ => E::Unary {
                        e: Box::new(inner),
                        required: false,
                    },
                };
            }
            "wrap-subterm".into()
        }
    }
}

/// Does the program apply a function that is declared in another module (trigger shape of the open
/// finding on cross-module instantiation of under-constrained functions)?
pub fn has_cross_module_application(p: &Program) -> bool {
    let mut found = false;
    let mut check = |e: &E, module: usize| {
        e.visit(&mut |x| {
            if let E::App { f, .. } = x {
                if let E::Var {
                    target: Target::Decl(d),
                    ..
                } = f.as_ref()
                {
                    if p.decls[*d].module != module {
                        found = true;
                    }
                }
            }
            // a function passed as an argument may be applied elsewhere
            if let E::Var {
                target: Target::Decl(d),
                ..
            } = x
            {
                if p.decls[*d].module != module && !p.decls[*d].params.is_empty() {
                    found = true;
                }
            }
        });
    };
    for d in &p.decls {
        check(&d.rhs, d.module);
    }
    for (mi, m) in p.modules.iter().enumerate() {
        for s in &m.stmts {
            if let Stmt::Res { e } = s {
                check(e, mi);
            }
        }
    }
    found
}

// ---------------------------------------------------------------------------------------------------
// Token-level and byte-level mutations of texts
// ---------------------------------------------------------------------------------------------------

/// Token ranges of a text according to the implementation's lexer (only used to produce inputs).
pub fn token_ranges(text: &str) -> Vec<(usize, usize)> {
    let loc = oal_model::locator::Locator::try_from("file:///m.oal").unwrap();
    let (list, _) = oal_syntax::lexer::tokenize(loc, text);
    let mut out = Vec::new();
    if let Some(list) = list {
        let mut c = list.head();
        while c.is_valid() {
            let (_, span) = list.token_span(c);
            out.push((span.start(), span.end()));
            c = list.advance(c);
        }
    }
    out
}

pub const TOKEN_POOL: [&str; 40] = [
    "let", "res", "use", "as", "on", "rec", "num", "str", "uri", "bool", "int", "get", "put", "media", "headers", "status",
    "{", "}", "(", ")", "[", "]", "<", ">", ";", ".", ",", "!", "?", "&", "~", "|", "=", ":", "::", "->", "/", "/seg", "'p",
    "@r",
];

pub fn mutate_tokens(text: &str, other: &str, rng: &mut Rng) -> String {
    let toks = token_ranges(text);
    if toks.is_empty() {
        return text.to_owned();
    }
    let n = rng.range(1, 3);
    let mut t = text.to_owned();
    for _ in 0..n {
        let toks = token_ranges(&t);
        if toks.is_empty() {
            break;
        }
        let (s, e) = *rng.pick(&toks);
        match rng.below(8) {
            7 => {
                // a bare postfix mark after a token (e.g. directly on an application argument)
                t.insert_str(e, if rng.chance(1, 2) { " ?" } else { " !" });
            }
            0 => t.replace_range(s..e, ""),
            1 => {
                let dup = t[s..e].to_owned();
                t.insert_str(e, &format!(" {dup}"));
            }
            2 => {
                let (s2, e2) = *rng.pick(&toks);
                if e <= s2 {
                    let a = t[s..e].to_owned();
                    let b = t[s2..e2].to_owned();
                    t.replace_range(s2..e2, &a);
                    t.replace_range(s..e, &b);
                }
            }
            3 => {
                let r = *rng.pick(&TOKEN_POOL);
                t.replace_range(s..e, r);
            }
            4 => {
                let r = *rng.pick(&TOKEN_POOL);
                t.insert_str(s, &format!("{r} "));
            }
            5 => {
                // splice: tail of another program
                let ot = token_ranges(other);
                if !ot.is_empty() {
                    let (os, _) = *rng.pick(&ot);
                    t.truncate(s);
                    t.push_str(&other[os..]);
                }
            }
            _ => {
                t.truncate(e);
            }
        }
    }
    t
}

const HOSTILE_CHARS: [&str; 24] = [
    "\u{0}", "\u{feff}", "é", "€", "😉", "\u{301}", "\r", "\r\n", "\n", "\t", "`", "\"", "#", "//", "/*", "*/", "'", "@", "$",
    "\u{2028}", "\u{10ffff}", "§", "\\", "%",
];

pub fn mutate_bytes(text: &str, rng: &mut Rng) -> String {
    let mut t = text.to_owned();
    for _ in 0..rng.range(1, 3) {
        let bounds: Vec<usize> = t.char_indices().map(|(i, _)| i).chain(std::iter::once(t.len())).collect();
        let at = *rng.pick(&bounds);
        match rng.below(6) {
            0 => t.truncate(at),
            1 => t.insert_str(at, *rng.pick(&HOSTILE_CHARS)),
            2 => {
                let digits: String = (0..rng.range(1, 40)).map(|_| char::from(b'0' + rng.below(10) as u8)).collect();
                t.insert_str(at, &format!(" {digits} "));
            }
            3 => {
                // delete one character
                if at < t.len() {
                    let c = t[at..].chars().next().unwrap();
                    t.replace_range(at..at + c.len_utf8(), "");
                }
            }
            4 => {
                let depth = rng.range(1, 40);
                let (o, c) = *rng.pick(&[("(", ")"), ("[", "]"), ("{", "}"), ("<", ">")]);
                t.insert_str(at, &format!("{}{}", o.repeat(depth), c.repeat(rng.below(depth + 1))));
            }
            _ => {
                let s = *rng.pick(&HOSTILE_CHARS);
                t.insert_str(at, &s.repeat(rng.range(1, 5)));
            }
        }
    }
    t
}

/// Arbitrary Unicode text.
pub fn random_text(rng: &mut Rng) -> String {
    let n = rng.range(0, 60);
    let mut s = String::new();
    for _ in 0..n {
        match rng.below(10) {
            0..=3 => s.push_str(*rng.pick(&TOKEN_POOL)),
            4 => s.push(' '),
            5 => s.push_str(*rng.pick(&HOSTILE_CHARS)),
            6 => {
                let c = loop {
                    let v = (rng.next() % 0x11_0000) as u32;
                    if let Some(c) = char::from_u32(v) {
                        break c;
                    }
                };
                s.push(c);
            }
            7 => s.push(char::from(32 + rng.below(95) as u8)),
            8 => s.push_str(&format!("\"{}\"", rng.pick(&HOSTILE_CHARS))),
            _ => s.push_str(&format!("`{}: {}`", rng.pick(&["a", "description", "&x", "<<", "!!int"]), rng.pick(&["1", "*x", "[", "{a: b", "\"q\"", "~"]))),
        }
    }
    s
}
