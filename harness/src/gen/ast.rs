//! GenAST: the generator's own abstract syntax of Oxlip programs, with kinds, binders and annotations.
//! Shares nothing with the implementation's syntax tree.

use serde_json::{json, Value};

/// Generator-level kinds (the checker's tag language, with Ranges split from Content).
#[derive(Clone, Debug, PartialEq, Eq, Hash)]
pub enum Ty {
    Text,
    Num,
    Status,
    Prim,
    Uri,
    Rel,
    Obj,
    Arr,
    Any,
    Prop(Box<Ty>),
    Content,
    Ranges,
    Xfer,
    Fun(Vec<Ty>, Box<Ty>),
}

impl Ty {
    pub fn is_schema(&self) -> bool {
        matches!(self, Ty::Prim | Ty::Uri | Ty::Rel | Ty::Obj | Ty::Arr | Ty::Any)
    }
    /// Kinds at which the checker cuts a declaration cycle.
    pub fn is_cuttable(&self) -> bool {
        matches!(self, Ty::Prim | Ty::Rel | Ty::Obj | Ty::Arr | Ty::Any)
    }
}

#[derive(Clone, Copy, Debug, PartialEq, Eq, Hash)]
pub enum PrimK {
    Num,
    Str,
    Bool,
    Int,
    Uri,
}

impl PrimK {
    pub fn kw(self) -> &'static str {
        match self {
            PrimK::Num => "num",
            PrimK::Str => "str",
            PrimK::Bool => "bool",
            PrimK::Int => "int",
            PrimK::Uri => "uri",
        }
    }
}

#[derive(Clone, Copy, Debug, PartialEq, Eq, Hash)]
pub enum OpK {
    Join,
    Any,
    Sum,
    Range,
}

impl OpK {
    pub fn sym(self) -> &'static str {
        match self {
            OpK::Join => "&",
            OpK::Any => "~",
            OpK::Sum => "|",
            OpK::Range => "::",
        }
    }
}

pub const METHODS: [&str; 7] = ["get", "put", "post", "patch", "delete", "options", "head"];

#[derive(Clone, Copy, Debug, PartialEq, Eq, Hash)]
pub enum MetaK {
    Media,
    Headers,
    Status,
}

impl MetaK {
    pub fn kw(self) -> &'static str {
        match self {
            MetaK::Media => "media",
            MetaK::Headers => "headers",
            MetaK::Status => "status",
        }
    }
}

/// Annotation values (the YAML subset the generator writes).
#[derive(Clone, Debug, PartialEq)]
pub enum AnnVal {
    Str(String),
    /// A string written as a YAML plain scalar (must read back as a string in YAML 1.2 core schema).
    Plain(String),
    Int(i64),
    Float(f64),
    Bool(bool),
    Seq(Vec<AnnVal>),
    Map(Vec<(String, AnnVal)>),
}

pub type AnnMap = Vec<(String, AnnVal)>;

/// Deep extension: mappings merged key-wise, sequences concatenated, anything else replaced (later wins).
pub fn ann_extend(prev: &mut AnnMap, other: &AnnMap) {
    for (k, ov) in other {
        if let Some((_, pv)) = prev.iter_mut().find(|(pk, _)| pk == k) {
            ann_extend_val(pv, ov);
        } else {
            prev.push((k.clone(), ov.clone()));
        }
    }
}

fn ann_extend_val(prev: &mut AnnVal, other: &AnnVal) {
    match (prev, other) {
        (AnnVal::Map(pm), AnnVal::Map(om)) => ann_extend(pm, om),
        (AnnVal::Seq(ps), AnnVal::Seq(os)) => ps.extend(os.iter().cloned()),
        (p, o) => *p = o.clone(),
    }
}

pub fn ann_get<'a>(a: &'a AnnMap, k: &str) -> Option<&'a AnnVal> {
    a.iter().find(|(pk, _)| pk == k).map(|(_, v)| v)
}

impl AnnVal {
    pub fn as_str(&self) -> Option<&str> {
        match self {
            AnnVal::Str(s) | AnnVal::Plain(s) => Some(s),
            _ => None,
        }
    }
    pub fn to_json(&self) -> Value {
        match self {
            AnnVal::Str(s) | AnnVal::Plain(s) => json!(s),
            AnnVal::Int(i) => json!(i),
            AnnVal::Float(f) => json!(f),
            AnnVal::Bool(b) => json!(b),
            AnnVal::Seq(s) => Value::Array(s.iter().map(|v| v.to_json()).collect()),
            AnnVal::Map(m) => Value::Object(m.iter().map(|(k, v)| (k.clone(), v.to_json())).collect()),
        }
    }
}

pub type DeclId = usize;
pub type RecId = usize;

/// What an identifier use is bound to, by the language's scoping rules.
#[derive(Clone, Debug, PartialEq, Eq, Hash)]
pub enum Target {
    Decl(DeclId),
    Param(DeclId, usize),
    Rec(RecId),
    Builtin(String),
}

#[derive(Clone, Debug, PartialEq)]
pub enum Seg {
    /// A literal path segment; empty string is the root `/`.
    Lit(String),
    /// `/{ expr }` with expr of kind Prop(Prim).
    Var(Box<E>),
}

#[derive(Clone, Debug, PartialEq)]
pub enum E {
    Prim(PrimK),
    LitStr(String),
    LitNum(u64),
    /// 1..=5 for 1XX..5XX
    LitStatus(u8),
    UriT {
        segs: Vec<Seg>,
        params: Option<Vec<E>>,
    },
    Obj(Vec<E>),
    Arr(Box<E>),
    Prop {
        name: String,
        mark: Option<bool>,
        rhs: Box<E>,
    },
    Unary {
        e: Box<E>,
        required: bool,
    },
    Op {
        op: OpK,
        args: Vec<E>,
    },
    Content {
        metas: Vec<(MetaK, E)>,
        body: Option<Box<E>>,
    },
    Xfer {
        methods: Vec<usize>,
        params: Option<Vec<E>>,
        domain: Option<Box<E>>,
        range: Box<E>,
    },
    Rel {
        uri: Box<E>,
        xfers: Vec<E>,
    },
    Var {
        qual: Option<String>,
        name: String,
        target: Target,
    },
    App {
        f: Box<E>,
        args: Vec<E>,
    },
    Paren(Box<E>),
    Rec {
        binder: String,
        id: RecId,
        body: Box<E>,
    },
    /// A terminal with annotations: `# pre...` lines before, inline annotation after.
    Ann {
        pre: Vec<AnnMap>,
        e: Box<E>,
        post: Option<AnnMap>,
    },
}

#[derive(Clone, Debug, PartialEq)]
pub enum Stmt {
    Use {
        /// path as written in the source
        path: String,
        /// index of the target module in Program.modules
        target: usize,
        qual: Option<String>,
    },
    Let {
        id: DeclId,
    },
    Res {
        e: E,
    },
}

#[derive(Clone, Debug, PartialEq)]
pub struct Decl {
    pub module: usize,
    pub name: String,
    pub params: Vec<String>,
    pub anns: Vec<AnnMap>,
    pub rhs: E,
    /// kind of the declared name (a Fun for functions)
    pub ty: Ty,
}

impl Decl {
    pub fn is_ref(&self) -> bool {
        self.name.starts_with('@')
    }
    pub fn is_fun(&self) -> bool {
        !self.params.is_empty()
    }
}

#[derive(Clone, Debug, PartialEq)]
pub struct Module {
    /// file name relative to the workspace root, e.g. "main.oal" or "lib/a.oal"
    pub file: String,
    pub stmts: Vec<Stmt>,
}

#[derive(Clone, Debug, PartialEq)]
pub struct Program {
    /// modules[0] is the main module
    pub modules: Vec<Module>,
    pub decls: Vec<Decl>,
    pub n_recs: usize,
}

impl E {
    pub fn var(name: &str, target: Target) -> E {
        E::Var {
            qual: None,
            name: name.to_owned(),
            target,
        }
    }
    /// Strips parentheses and annotation wrappers.
    pub fn peel(&self) -> &E {
        match self {
            E::Paren(e) => e.peel(),
            E::Ann { e, .. } => e.peel(),
            e => e,
        }
    }
    /// Visits all direct sub-expressions.
    pub fn children(&self) -> Vec<&E> {
        match self {
            E::Prim(_) | E::LitStr(_) | E::LitNum(_) | E::LitStatus(_) | E::Var { .. } => vec![],
            E::UriT { segs, params } => {
                let mut v: Vec<&E> = segs
                    .iter()
                    .filter_map(|s| match s {
                        Seg::Var(e) => Some(e.as_ref()),
                        _ => None,
                    })
                    .collect();
                if let Some(p) = params {
                    v.extend(p.iter());
                }
                v
            }
            E::Obj(ps) => ps.iter().collect(),
            E::Arr(e) => vec![e],
            E::Prop { rhs, .. } => vec![rhs],
            E::Unary { e, .. } => vec![e],
            E::Op { args, .. } => args.iter().collect(),
            E::Content { metas, body } => {
                let mut v: Vec<&E> = metas.iter().map(|(_, e)| e).collect();
                if let Some(b) = body {
                    v.push(b);
                }
                v
            }
            E::Xfer {
                params,
                domain,
                range,
                ..
            } => {
                let mut v: Vec<&E> = Vec::new();
                if let Some(p) = params {
                    v.extend(p.iter());
                }
                if let Some(d) = domain {
                    v.push(d);
                }
                v.push(range);
                v
            }
            E::Rel { uri, xfers } => {
                let mut v: Vec<&E> = vec![uri];
                v.extend(xfers.iter());
                v
            }
            E::App { f, args } => {
                let mut v: Vec<&E> = vec![f];
                v.extend(args.iter());
                v
            }
            E::Paren(e) => vec![e],
            E::Rec { body, .. } => vec![body],
            E::Ann { e, .. } => vec![e],
        }
    }
    pub fn children_mut(&mut self) -> Vec<&mut E> {
        match self {
            E::Prim(_) | E::LitStr(_) | E::LitNum(_) | E::LitStatus(_) | E::Var { .. } => vec![],
            E::UriT { segs, params } => {
                let mut v: Vec<&mut E> = segs
                    .iter_mut()
                    .filter_map(|s| match s {
                        Seg::Var(e) => Some(e.as_mut()),
                        _ => None,
                    })
                    .collect();
                if let Some(p) = params {
                    v.extend(p.iter_mut());
                }
                v
            }
            E::Obj(ps) => ps.iter_mut().collect(),
            E::Arr(e) => vec![e],
            E::Prop { rhs, .. } => vec![rhs],
            E::Unary { e, .. } => vec![e],
            E::Op { args, .. } => args.iter_mut().collect(),
            E::Content { metas, body } => {
                let mut v: Vec<&mut E> = metas.iter_mut().map(|(_, e)| e).collect();
                if let Some(b) = body {
                    v.push(b);
                }
                v
            }
            E::Xfer {
                params,
                domain,
                range,
                ..
            } => {
                let mut v: Vec<&mut E> = Vec::new();
                if let Some(p) = params {
                    v.extend(p.iter_mut());
                }
                if let Some(d) = domain {
                    v.push(d);
                }
                v.push(range);
                v
            }
            E::Rel { uri, xfers } => {
                let mut v: Vec<&mut E> = vec![uri];
                v.extend(xfers.iter_mut());
                v
            }
            E::App { f, args } => {
                let mut v: Vec<&mut E> = vec![f];
                v.extend(args.iter_mut());
                v
            }
            E::Paren(e) => vec![e],
            E::Rec { body, .. } => vec![body],
            E::Ann { e, .. } => vec![e],
        }
    }
    /// Number of nodes.
    pub fn size(&self) -> usize {
        1 + self.children().iter().map(|c| c.size()).sum::<usize>()
    }
    pub fn depth(&self) -> usize {
        1 + self.children().iter().map(|c| c.depth()).max().unwrap_or(0)
    }
    /// Pre-order visit.
    pub fn visit<'a>(&'a self, f: &mut dyn FnMut(&'a E)) {
        f(self);
        for c in self.children() {
            c.visit(f);
        }
    }
}

impl Program {
    /// All expressions of a module's statements (declaration right-hand sides and resources).
    pub fn module_exprs(&self, m: usize) -> Vec<&E> {
        self.modules[m]
            .stmts
            .iter()
            .filter_map(|s| match s {
                Stmt::Let { id } => Some(&self.decls[*id].rhs),
                Stmt::Res { e } => Some(e),
                Stmt::Use { .. } => None,
            })
            .collect()
    }
    /// Declarations mentioned (by Target::Decl) anywhere inside expression e.
    pub fn mentions(e: &E) -> Vec<DeclId> {
        let mut out = Vec::new();
        e.visit(&mut |x| {
            if let E::Var {
                target: Target::Decl(d),
                ..
            } = x
            {
                out.push(*d);
            }
        });
        out
    }
    /// Declarations that the checker flags as recursive: cuttable, non-function declarations inside a
    /// non-trivial strongly connected component of their module's declaration graph.
    pub fn recursive_decls(&self) -> Vec<bool> {
        let n = self.decls.len();
        let adj: Vec<Vec<DeclId>> = self
            .decls
            .iter()
            .map(|d| {
                let mut m = Program::mentions(&d.rhs);
                // Only same-module edges can be on a cycle (imports are acyclic), but edges to imported
                // declarations are harmless: those have no outgoing edges in this module's graph.
                m.retain(|t| self.decls[*t].module == d.module);
                m
            })
            .collect();
        // reach[i][j]: j reachable from i by >= 1 edge
        let mut reach = vec![vec![false; n]; n];
        for i in 0..n {
            let mut stack: Vec<usize> = adj[i].clone();
            while let Some(j) = stack.pop() {
                if !reach[i][j] {
                    reach[i][j] = true;
                    stack.extend(adj[j].iter().copied());
                }
            }
        }
        (0..n)
            .map(|i| reach[i][i] && !self.decls[i].is_fun() && self.decls[i].ty.is_cuttable())
            .collect()
    }
}
