//! Printer from GenAST to concrete syntax, inserting parentheses by the grammar's precedence,
//! recording the span table (statements, identifier occurrences, binders).

use oal_model::lexicon::Lexeme;
use super::ast::*;
use crate::util::Rng;
use std::ops::Range;

#[derive(Clone, Debug, PartialEq)]
pub enum Role {
    /// An identifier use (the name token; `qual` is the qualifier token's range if any).
    Use(Target),
    DeclName(DeclId),
    ParamBinder(DeclId, usize),
    RecBinder(RecId),
    /// The qualifier identifier in `use "x" as q;` (module index, statement index).
    ImportQual(usize, usize),
}

#[derive(Clone, Debug)]
pub struct Occ {
    pub range: Range<usize>,
    pub role: Role,
    /// For uses: range of the qualifier token, if qualified.
    pub qual: Option<Range<usize>>,
}

#[derive(Clone, Debug, Default)]
pub struct PrintedModule {
    pub file: String,
    pub text: String,
    pub stmts: Vec<Range<usize>>,
    pub occs: Vec<Occ>,
    /// Full range of each declaration statement (first annotation or `let` up to and including `;`).
    pub decl_ranges: Vec<(DeclId, Range<usize>)>,
}

// Context levels, ascending tightness.
const L_STMT: u8 = 0; // statement level or directly inside parentheses: anything bare
const L_EXPR: u8 = 1; // expression inside a comma-separated list: a relation literal needs parentheses
const L_SUM: u8 = 2;
const L_ANY: u8 = 3;
const L_JOIN: u8 = 4;
const L_RANGE: u8 = 5;
const L_APPLY: u8 = 6;
const L_UNARY: u8 = 7;
const L_TERM: u8 = 8;

pub struct Printer<'a> {
    /// print postfix-marked application arguments without parentheses (mutants only: the language parses
    /// them but does not count them as arguments)
    pub bare_unary_args: bool,
    out: String,
    occs: Vec<Occ>,
    trivia: Option<&'a mut Rng>,
    at_line_start: bool,
    /// no blank where two tokens cannot run together: `wrap@item`, `f(x)`, `{'a num,'b str}`
    pub tight: bool,
}

fn yaml_quote(s: &str) -> String {
    let mut o = String::from("\"");
    for c in s.chars() {
        match c {
            '"' => o.push_str("\\\""),
            '\\' => o.push_str("\\\\"),
            '\n' => o.push_str("\\n"),
            '\t' => o.push_str("\\t"),
            '\r' => o.push_str("\\r"),
            c if (c as u32) < 0x20 => o.push_str(&format!("\\x{:02x}", c as u32)),
            c => o.push(c),
        }
    }
    o.push('"');
    o
}

pub fn ann_val_text(v: &AnnVal) -> String {
    match v {
        AnnVal::Str(s) => yaml_quote(s),
        AnnVal::Plain(s) => s.clone(),
        AnnVal::Int(i) => i.to_string(),
        AnnVal::Float(f) => {
            let s = format!("{f:?}");
            s
        }
        AnnVal::Bool(b) => b.to_string(),
        AnnVal::Seq(xs) => format!("[{}]", xs.iter().map(ann_val_text).collect::<Vec<_>>().join(", ")),
        AnnVal::Map(m) => format!("{{ {} }}", ann_map_text(m)),
    }
}

pub fn ann_map_text(m: &AnnMap) -> String {
    m.iter()
        .map(|(k, v)| format!("{}: {}", k, ann_val_text(v)))
        .collect::<Vec<_>>()
        .join(", ")
}

impl<'a> Printer<'a> {
    pub fn new(trivia: Option<&'a mut Rng>) -> Self {
        Printer {
            bare_unary_args: false,
            out: String::new(),
            occs: Vec::new(),
            trivia,
            at_line_start: true,
            tight: false,
        }
    }

    fn sep(&mut self, next: &str) {
        if self.out.is_empty() {
            return;
        }
        match self.trivia.as_mut() {
            None => {
                if !self.at_line_start {
                    let prev = self.out.chars().last().unwrap_or(' ');
                    let glue = self.tight
                        && ((next.starts_with('@') && (prev.is_ascii_alphanumeric() || prev == '_'))
                            // path elements written the usual way: `/items/`, `/users/{ 'id int }/`
                            || (next.starts_with('/') && (prev.is_ascii_alphanumeric() || matches!(prev, '}' | '-' | '_' | '.' | '~')))
                            || matches!(next, ")" | "}" | "]" | "," | ";")
                            || matches!(prev, '(' | '{' | '['));
                    if !glue {
                        self.out.push(' ');
                    }
                }
            }
            Some(r) => {
                let k = r.below(14);
                let s = match k {
                    0 => "  ",
                    1 => "\n",
                    2 => "\t",
                    3 => " /* c */ ",
                    4 => " // c\n",
                    5 => "\r\n",
                    6 => " /* a\n b */\n",
                    // comments with 2-, 3- and 4-byte characters and a no-break space: byte, character and UTF-16 distances
                    // differ behind them
                    7 => " /* é😉 */ ",
                    8 => " /* €\u{a0}x */",
                    _ => " ",
                };
                if self.at_line_start && k >= 9 {
                    // nothing needed
                } else {
                    self.out.push_str(s);
                }
            }
        }
    }

    /// Emits one token preceded by a separator; returns its byte range.
    fn tok(&mut self, s: &str) -> Range<usize> {
        self.sep(s);
        let start = self.out.len();
        self.out.push_str(s);
        self.at_line_start = s.ends_with('\n');
        start..self.out.len()
    }

    fn line_ann(&mut self, m: &AnnMap) {
        let t = format!("# {}\n", ann_map_text(m));
        self.tok(&t);
    }

    fn own_level(e: &E) -> u8 {
        match e {
            E::Rec { .. } | E::Prop { .. } | E::Xfer { .. } => L_EXPR,
            E::Rel { .. } => L_STMT,
            E::Op { op: OpK::Sum, .. } => L_SUM,
            E::Op { op: OpK::Any, .. } => L_ANY,
            E::Op { op: OpK::Join, .. } => L_JOIN,
            E::Op { op: OpK::Range, .. } => L_RANGE,
            E::App { .. } => L_APPLY,
            E::Unary { .. } => L_UNARY,
            _ => L_TERM,
        }
    }

    fn props(&mut self, ps: &[E]) {
        self.tok("{");
        for (i, p) in ps.iter().enumerate() {
            if i > 0 {
                self.tok(",");
            }
            self.expr(p, L_EXPR);
        }
        // a property list may end in a comma: written now and then where trivia is written
        if !ps.is_empty() {
            if let Some(r) = self.trivia.as_mut() {
                if r.chance(1, 6) {
                    self.tok(",");
                }
            }
        }
        self.tok("}");
    }

    pub fn expr(&mut self, e: &E, ctx: u8) {
        let lvl = Self::own_level(e);
        if lvl < ctx {
            self.tok("(");
            self.expr(e, L_STMT);
            self.tok(")");
            return;
        }
        // In a list context, sub-expressions that extend to the right inherit the list context.
        let tail_ctx = if ctx == L_STMT { L_STMT } else { L_EXPR };
        match e {
            E::Prim(p) => {
                self.tok(p.kw());
            }
            E::LitStr(s) => {
                self.tok(&format!("\"{s}\""));
            }
            E::LitNum(n) => {
                self.tok(&n.to_string());
            }
            E::LitStatus(c) => {
                self.tok(&format!("{c}XX"));
            }
            E::UriT { segs, params } => {
                for s in segs {
                    match s {
                        Seg::Lit(l) if l.is_empty() => {
                            self.tok("/");
                        }
                        Seg::Lit(l) => {
                            self.tok(&format!("/{l}"));
                        }
                        Seg::Var(v) => {
                            self.tok("/");
                            self.tok("{");
                            self.expr(v, L_EXPR);
                            self.tok("}");
                        }
                    }
                }
                if let Some(ps) = params {
                    self.tok("?");
                    self.props(ps);
                }
            }
            E::Obj(ps) => self.props(ps),
            E::Arr(i) => {
                self.tok("[");
                self.expr(i, L_EXPR);
                self.tok("]");
            }
            E::Prop { name, mark, rhs } => {
                self.tok(&format!("'{name}"));
                match mark {
                    Some(true) => {
                        self.tok("!");
                    }
                    Some(false) => {
                        self.tok("?");
                    }
                    None => {}
                }
                self.expr(rhs, tail_ctx);
            }
            E::Unary { e, required } => {
                self.expr(e, L_TERM);
                self.tok(if *required { "!" } else { "?" });
            }
            E::Op { op, args } => {
                for (i, a) in args.iter().enumerate() {
                    if i > 0 {
                        self.tok(op.sym());
                    }
                    self.expr(a, lvl + 1);
                }
            }
            E::Content { metas, body } => {
                self.tok("<");
                let mut first = true;
                for (k, v) in metas {
                    if !first {
                        self.tok(",");
                    }
                    first = false;
                    self.tok(k.kw());
                    self.tok("=");
                    self.expr(v, L_EXPR);
                }
                if let Some(b) = body {
                    if !first {
                        self.tok(",");
                    }
                    self.expr(b, L_EXPR);
                }
                self.tok(">");
            }
            E::Xfer {
                methods,
                params,
                domain,
                range,
            } => {
                for (i, m) in methods.iter().enumerate() {
                    if i > 0 {
                        self.tok(",");
                    }
                    self.tok(METHODS[*m]);
                }
                if let Some(ps) = params {
                    self.props(ps);
                }
                if let Some(d) = domain {
                    self.tok(":");
                    self.expr(d, L_TERM);
                }
                self.tok("->");
                self.expr(range, L_RANGE);
            }
            E::Rel { uri, xfers } => {
                self.expr(uri, L_TERM);
                self.tok("on");
                for (i, x) in xfers.iter().enumerate() {
                    if i > 0 {
                        self.tok(",");
                    }
                    self.expr(x, L_EXPR);
                }
            }
            E::Var { qual, name, target } => {
                let q = qual.as_ref().map(|q| {
                    let r = self.tok(q);
                    self.tok(".");
                    r
                });
                let r = self.tok(name);
                self.occs.push(Occ {
                    range: r,
                    role: Role::Use(target.clone()),
                    qual: q,
                });
            }
            E::App { f, args } => {
                self.expr(f, L_TERM);
                for a in args {
                    // Adjacent URI literals would merge into one template: always parenthesise them.
                    // Arguments that are not terminals (postfix marks) are ignored by the language: terms only.
                    let ends_with_uri = match a {
                        E::UriT { .. } => true,
                        E::Ann { e, post: None, .. } => matches!(e.as_ref(), E::UriT { .. }),
                        _ => false,
                    };
                    if ends_with_uri {
                        self.tok("(");
                        self.expr(a, L_STMT);
                        self.tok(")");
                    } else if self.bare_unary_args && matches!(a, E::Unary { .. }) {
                        self.expr(a, L_UNARY);
                    } else {
                        self.expr(a, L_TERM);
                    }
                }
            }
            E::Paren(i) => {
                self.tok("(");
                self.expr(i, L_STMT);
                self.tok(")");
            }
            E::Rec { binder, id, body } => {
                self.tok("rec");
                let r = self.tok(binder);
                self.occs.push(Occ {
                    range: r,
                    role: Role::RecBinder(*id),
                    qual: None,
                });
                self.expr(body, tail_ctx);
            }
            E::Ann { pre, e, post } => {
                for m in pre {
                    self.line_ann(m);
                }
                // a term takes one inline annotation: a second one would attach to whatever encloses the term
                fn ends_with_post(e: &E) -> bool {
                    match e {
                        E::Ann { post: Some(_), .. } => true,
                        E::Ann { post: None, e, .. } => ends_with_post(e),
                        _ => false,
                    }
                }
                let inner_has_post = ends_with_post(e);
                if post.is_some() && inner_has_post {
                    self.tok("(");
                    self.expr(e, L_STMT);
                    self.tok(")");
                } else {
                    self.expr(e, L_TERM);
                }
                if let Some(m) = post {
                    self.tok(&format!("`{}`", ann_map_text(m)));
                }
            }
        }
    }
}

/// Prints one module. `trivia`: insert random blanks, newlines and comments between tokens.
pub fn print_module(p: &Program, m: usize, trivia: Option<&mut Rng>) -> PrintedModule {
    print_module_opts(p, m, trivia, false)
}

pub fn print_program_mutant(p: &Program) -> Vec<PrintedModule> {
    (0..p.modules.len()).map(|m| print_module_opts(p, m, None, true)).collect()
}

fn print_module_tight(p: &Program, m: usize) -> PrintedModule {
    print_module_full(p, m, None, false, true)
}

pub fn print_module_opts(p: &Program, m: usize, trivia: Option<&mut Rng>, bare_unary_args: bool) -> PrintedModule {
    print_module_full(p, m, trivia, bare_unary_args, false)
}

fn print_module_full(p: &Program, m: usize, trivia: Option<&mut Rng>, bare_unary_args: bool, tight: bool) -> PrintedModule {
    let mut pr = Printer::new(trivia);
    pr.bare_unary_args = bare_unary_args;
    pr.tight = tight;
    let mut stmts = Vec::new();
    let mut decl_ranges = Vec::new();
    for (si, s) in p.modules[m].stmts.iter().enumerate() {
        let mut start: Option<usize> = None;
        let mut mark = |r: &Range<usize>, start: &mut Option<usize>| {
            if start.is_none() {
                *start = Some(r.start);
            }
        };
        match s {
            Stmt::Use { path, qual, .. } => {
                let r = pr.tok("use");
                mark(&r, &mut start);
                pr.tok(&format!("\"{path}\""));
                if let Some(q) = qual {
                    pr.tok("as");
                    let r = pr.tok(q);
                    pr.occs.push(Occ {
                        range: r,
                        role: Role::ImportQual(m, si),
                        qual: None,
                    });
                }
                pr.tok(";");
            }
            Stmt::Let { id } => {
                let d = &p.decls[*id];
                for a in &d.anns {
                    let t = format!("# {}\n", ann_map_text(a));
                    let r = pr.tok(&t);
                    mark(&r, &mut start);
                }
                let r = pr.tok("let");
                mark(&r, &mut start);
                let r = pr.tok(&d.name);
                pr.occs.push(Occ {
                    range: r,
                    role: Role::DeclName(*id),
                    qual: None,
                });
                for (i, prm) in d.params.iter().enumerate() {
                    let r = pr.tok(prm);
                    pr.occs.push(Occ {
                        range: r,
                        role: Role::ParamBinder(*id, i),
                        qual: None,
                    });
                }
                pr.tok("=");
                pr.expr(&d.rhs, L_STMT);
                pr.tok(";");
                decl_ranges.push((*id, start.unwrap()..pr.out.len()));
            }
            Stmt::Res { e } => {
                let r = pr.tok("res");
                mark(&r, &mut start);
                pr.expr(e, L_STMT);
                pr.tok(";");
            }
        }
        stmts.push(start.unwrap()..pr.out.len());
        if pr.trivia.is_none() {
            pr.out.push('\n');
            pr.at_line_start = true;
        }
    }
    PrintedModule {
        file: p.modules[m].file.clone(),
        text: pr.out,
        stmts,
        occs: pr.occs,
        decl_ranges,
    }
}

pub fn print_program(p: &Program) -> Vec<PrintedModule> {
    (0..p.modules.len()).map(|m| print_module(p, m, None)).collect()
}

/// Prints with as few blanks as the printer dares (see `Printer::tight`); a module whose tight text does not lex into
/// the same tokens as its ordinary text is printed the ordinary way.
pub fn print_program_tight(p: &Program) -> Vec<PrintedModule> {
    let toks = |t: &str| -> Vec<String> {
        let loc = oal_model::locator::Locator::try_from("file:///m.oal").unwrap();
        let (list, _) = oal_syntax::lexer::tokenize(loc, t);
        let mut out = Vec::new();
        if let Some(list) = list {
            let mut c = list.head();
            while c.is_valid() {
                let (tok, span) = list.token_span(c);
                if !tok.kind().is_trivia() {
                    out.push(t[span.start()..span.end()].to_owned());
                }
                c = list.advance(c);
            }
        }
        out
    };
    (0..p.modules.len())
        .map(|m| {
            let plain = print_module_opts(p, m, None, false);
            let mut pr_tight = print_module_tight(p, m);
            if toks(&plain.text) != toks(&pr_tight.text) {
                pr_tight = plain;
            }
            pr_tight
        })
        .collect()
}

pub fn print_program_trivia(p: &Program, rng: &mut Rng) -> Vec<PrintedModule> {
    (0..p.modules.len()).map(|m| print_module(p, m, Some(rng))).collect()
}

/// Prints a single expression (for messages).
pub fn expr_text(e: &E) -> String {
    let mut pr = Printer::new(None);
    pr.expr(e, L_STMT);
    pr.out
}
