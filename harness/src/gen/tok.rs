//! G-tok: exhaustive token-sequence enumeration, nesting families and other text families.

/// One representative lexeme per non-trivia token kind (51 kinds).
pub const FULL: [&str; 51] = [
    "num", "str", "uri", "bool", "int", "/", "/seg", "get", "put", "post", "patch", "delete", "options", "head", "media",
    "headers", "status", "let", "res", "use", "as", "on", "rec", "x", "@r", "123", "\"s\"", "4XX", "'p", "{", "}", "(", ")",
    "[", "]", "<", ">", ";", ".", ",", "!", "?", "&", "~", "|", "=", ":", "::", "->", "# a: 1\n", "`b: 2`",
];

/// Reduced alphabet exercising the memoised productions (terms and expressions).
pub const REDUCED: [&str; 12] = ["(", ")", "{", "}", "num", "x", "'p", "|", ",", "let", "=", ";"];

pub const PREFIXES: [&str; 3] = ["", "let a = ", "res "];

/// Second reduced alphabet, behind `let a = x `: arguments of an application where `/ {` may start a URI variable or
/// be the root URI followed by an object — the one place where the same tokens are tried under two readings.
pub const REDUCED2: [&str; 8] = ["/", "{", "}", "'p", "x", ",", ";", "num"];
pub const PREFIX2: &str = "let a = x ";

/// Number of sequences of length <= max_len over an alphabet of size k.
pub fn count(k: u64, max_len: u32) -> u64 {
    let mut n = 0;
    let mut b = 1;
    for _ in 0..=max_len {
        n += b;
        b *= k;
    }
    n
}

/// The idx-th sequence (shortest first) rendered with single blanks.
pub fn sequence(alphabet: &[&str], mut idx: u64) -> String {
    let k = alphabet.len() as u64;
    let mut len = 0;
    let mut block = 1u64;
    while idx >= block {
        idx -= block;
        len += 1;
        block *= k;
    }
    let mut parts = Vec::new();
    for _ in 0..len {
        parts.push(alphabet[(idx % k) as usize]);
        idx /= k;
    }
    parts.join(" ")
}

pub const NEST_DEPTHS: [usize; 8] = [1, 3, 10, 25, 50, 100, 150, 200];

/// Bracket-nesting and chain families for every bracket kind, valid and unbalanced.
pub fn nesting(family: usize, d: usize) -> Option<String> {
    let r = |s: &str, n: usize| s.repeat(n);
    Some(match family {
        0 => format!("let a = {}num{};", r("(", d), r(")", d)),
        1 => format!("let a = {}num{};", r("[", d), r("]", d)),
        2 => format!("let a = {}{}{};", r("{ 'p ", d), "{}", r(" }", d)),
        3 => format!("let a = {}{}{};", r("<", d), "{}", r(">", d)),
        4 => format!("let a = {}num;", r("(", d)),
        5 => format!("let a = num{};", r(")", d)),
        6 => format!("let a = {}", r("{ 'p ", d)),
        7 => format!("let a = {}{};", r("([{<", d), r(">}])", d)),
        8 => format!("let a = {} num;", r("'p ", d)),
        9 => format!("let a = {} x;", r("rec x ", d)),
        10 => format!("let a = x{};", r(" x", d)),
        11 => format!("let a = num{};", r(" | num", d)),
        12 => format!("res /{} on get -> <>;", r("a/", d)),
        13 => format!("res /{}{} on get -> <>;", r("{ 'p ", d), r(" }", d)),
        14 => format!("let a = {}num{};", r("( # a: 1\n", d), r(" `b: 2` )", d)),
        15 => format!("let a = num{};", r(" ! ? ", d)),
        16 => format!("let a = f{};", r(" (g", d)),
        17 => r("let a = num;\n", d * 5),
        // nested contents whose later meta-data contains a repetition item
        18 => format!("let a = {}<>{};", r("<headers={ 'h ", d), r(" }, media={ 'm str }>", d)),
        // nested transfers with parameter objects and domains
        19 => format!("let a = {}<>{};", r("get { 'q num } : <", d), r("> -> <>", d)),
        // relations nested through response objects, several transfers each
        20 => format!("let a = {}{{}}{};", r("/x on get -> { 'r ", d), r(" }, put -> <>", d)),
        // uri templates with nested variables and parameters
        21 => format!("let a = {}num{};", r("/p/{ 'v ", d), r(" }?{ 'q str }", d)),
        _ => return None,
    })
}
