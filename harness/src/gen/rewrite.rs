//! Meaning-preserving rewrites of C05 on GenAST, with the side conditions of DESIGN.md (C05, section 8).

use super::ast::*;
use crate::util::Rng;

#[derive(Clone, Debug)]
pub struct Site {
    pub root: Root,
    /// pre-order index inside the root expression
    pub idx: usize,
    /// the site receives the empty annotation
    pub empty_ann: bool,
    /// the node is the callee of an application
    pub callee: bool,
    /// no free parameter / rec binder
    pub closed: bool,
    /// names of parameters and rec binders in scope at the site
    pub scope_names: Vec<String>,
}

#[derive(Clone, Copy, Debug, PartialEq)]
pub enum Root {
    Decl(DeclId),
    Res(usize, usize),
}

fn root_expr<'a>(p: &'a Program, r: Root) -> &'a E {
    match r {
        Root::Decl(d) => &p.decls[d].rhs,
        Root::Res(m, s) => match &p.modules[m].stmts[s] {
            Stmt::Res { e } => e,
            _ => unreachable!(),
        },
    }
}

fn root_expr_mut<'a>(p: &'a mut Program, r: Root) -> &'a mut E {
    match r {
        Root::Decl(d) => &mut p.decls[d].rhs,
        Root::Res(m, s) => match &mut p.modules[m].stmts[s] {
            Stmt::Res { e } => e,
            _ => unreachable!(),
        },
    }
}

pub fn roots(p: &Program) -> Vec<Root> {
    let mut r: Vec<Root> = (0..p.decls.len()).map(Root::Decl).collect();
    for (mi, m) in p.modules.iter().enumerate() {
        for (si, s) in m.stmts.iter().enumerate() {
            if matches!(s, Stmt::Res { .. }) {
                r.push(Root::Res(mi, si));
            }
        }
    }
    r
}

fn is_closed(e: &E) -> bool {
    let mut recs_inside: Vec<RecId> = Vec::new();
    e.visit(&mut |x| {
        if let E::Rec { id, .. } = x {
            recs_inside.push(*id);
        }
    });
    let mut closed = true;
    e.visit(&mut |x| {
        if let E::Var { target, .. } = x {
            match target {
                Target::Param(..) => closed = false,
                Target::Rec(id) if !recs_inside.contains(id) => closed = false,
                _ => {}
            }
        }
    });
    closed
}

/// Enumerates all sub-expression sites of a root with their context flags.
pub fn sites(p: &Program, root: Root) -> Vec<Site> {
    let mut out = Vec::new();
    let mut scope: Vec<String> = Vec::new();
    let top_empty = match root {
        Root::Decl(d) => {
            scope.extend(p.decls[d].params.iter().cloned());
            false
        }
        Root::Res(..) => true,
    };
    fn go(e: &E, root: Root, idx: &mut usize, empty_ann: bool, callee: bool, scope: &mut Vec<String>, out: &mut Vec<Site>) {
        out.push(Site {
            root,
            idx: *idx,
            empty_ann,
            callee,
            closed: is_closed(e),
            scope_names: scope.clone(),
        });
        *idx += 1;
        match e {
            E::Paren(i) => go(i, root, idx, empty_ann, false, scope, out),
            E::Ann { e: i, .. } => go(i, root, idx, false, false, scope, out),
            E::Rec { binder, body, .. } => {
                scope.push(binder.clone());
                go(body, root, idx, empty_ann, false, scope, out);
                scope.pop();
            }
            E::App { f, args } => {
                go(f, root, idx, true, true, scope, out);
                for a in args {
                    go(a, root, idx, true, false, scope, out);
                }
            }
            other => {
                for c in other.children() {
                    go(c, root, idx, true, false, scope, out);
                }
            }
        }
    }
    let mut idx = 0;
    go(root_expr(p, root), root, &mut idx, top_empty, false, &mut scope, &mut out);
    out
}

fn nth<'a>(e: &'a E, n: &mut usize) -> Option<&'a E> {
    if *n == 0 {
        return Some(e);
    }
    *n -= 1;
    for c in e.children() {
        if let Some(x) = nth(c, n) {
            return Some(x);
        }
    }
    None
}

fn nth_mut<'a>(e: &'a mut E, n: &mut usize) -> Option<&'a mut E> {
    if *n == 0 {
        return Some(e);
    }
    *n -= 1;
    for c in e.children_mut() {
        if let Some(x) = nth_mut(c, n) {
            return Some(x);
        }
    }
    None
}

pub fn get<'a>(p: &'a Program, s: &Site) -> &'a E {
    nth(root_expr(p, s.root), &mut s.idx.clone()).unwrap()
}

fn get_mut<'a>(p: &'a mut Program, s: &Site) -> &'a mut E {
    nth_mut(root_expr_mut(p, s.root), &mut s.idx.clone()).unwrap()
}

/// Does expression e reach declaration `target` through declaration mentions?
fn reaches(p: &Program, e: &E, target: DeclId) -> bool {
    let mut stack = Program::mentions(e);
    let mut seen = vec![false; p.decls.len()];
    while let Some(d) = stack.pop() {
        if d == target {
            return true;
        }
        if seen[d] {
            continue;
        }
        seen[d] = true;
        stack.extend(Program::mentions(&p.decls[d].rhs));
    }
    false
}

fn module_of(p: &Program, r: Root) -> usize {
    match r {
        Root::Decl(d) => p.decls[d].module,
        Root::Res(m, _) => m,
    }
}

/// Identifiers that look like keywords in another letter case: ordinary names of the language.
pub const LOOKALIKES: [&str; 20] = [
    "Head", "GET", "Options", "Put", "Delete", "Patch", "POST", "Let", "Res", "Use", "As", "On", "Rec", "Num", "Str", "Media", "Status", "Headers",
    "Int", "Bool",
];

fn fresh(p: &Program, prefix: &str, rng: &mut Rng) -> String {
    if rng.chance(1, 5) {
        let n = (*rng.pick(&LOOKALIKES)).to_owned();
        let mut used = p.decls.iter().any(|d| d.name == n || d.params.contains(&n));
        for d in &p.decls {
            d.rhs.visit(&mut |e| match e {
                E::Rec { binder, .. } if *binder == n => used = true,
                E::Var { qual: Some(q), .. } if *q == n => used = true,
                _ => {}
            });
        }
        for m in &p.modules {
            for s in &m.stmts {
                if matches!(s, Stmt::Use { qual: Some(q), .. } if *q == n) {
                    used = true;
                }
            }
        }
        if !used {
            return n;
        }
    }
    loop {
        let n = format!("{prefix}{}", rng.below(100000));
        let used = p.decls.iter().any(|d| d.name == n || d.params.contains(&n));
        if !used {
            return n;
        }
    }
}

/// Inserts `Stmt::Let{id}` into module m after the use statements at a random position.
fn insert_let(p: &mut Program, m: usize, id: DeclId, rng: &mut Rng) {
    let first = p.modules[m]
        .stmts
        .iter()
        .position(|s| !matches!(s, Stmt::Use { .. }))
        .unwrap_or(p.modules[m].stmts.len());
    let pos = first + rng.below(p.modules[m].stmts.len() - first + 1);
    p.modules[m].stmts.insert(pos, Stmt::Let { id });
}

#[derive(Clone, Debug, Default)]
pub struct Applied {
    pub what: String,
    pub site: String,
    /// renamed explicit component (old, new), without the '@'
    pub ref_rename: Option<(String, String)>,
    pub trivia: bool,
}

fn site_kind(p: &Program, s: &Site) -> String {
    let e = get(p, s);
    let k = match e {
        E::Prim(_) => "prim",
        E::LitStr(_) | E::LitNum(_) | E::LitStatus(_) => "literal",
        E::UriT { .. } => "uri",
        E::Obj(_) => "object",
        E::Arr(_) => "array",
        E::Prop { .. } => "property",
        E::Unary { .. } => "postfix",
        E::Op { .. } => "operator",
        E::Content { .. } => "content",
        E::Xfer { .. } => "transfer",
        E::Rel { .. } => "relation",
        E::Var { .. } => "variable",
        E::App { .. } => "application",
        E::Paren(_) => "paren",
        E::Rec { .. } => "rec",
        E::Ann { .. } => "annotated",
    };
    k.to_owned()
}

/// (1) parenthesise an expression node.
pub fn rw_paren(p: &Program, rng: &mut Rng) -> Option<(Program, Applied)> {
    let rs = roots(p);
    let r = *rng.pick(&rs);
    let ss: Vec<Site> = sites(p, r).into_iter().filter(|s| !s.callee).collect();
    if ss.is_empty() {
        return None;
    }
    let s = rng.pick(&ss).clone();
    let mut q = p.clone();
    let kind = site_kind(p, &s);
    let x = get_mut(&mut q, &s);
    let inner = std::mem::replace(x, E::Obj(vec![]));
    *x = E::Paren(Box::new(inner));
    Some((
        q,
        Applied {
            what: "parenthesise".into(),
            site: kind,
            ..Default::default()
        },
    ))
}

/// (2a) name a closed sub-expression with a fresh let.
pub fn rw_name(p: &Program, rng: &mut Rng) -> Option<(Program, Applied)> {
    let rs = roots(p);
    let r = *rng.pick(&rs);
    let enclosing = match r {
        Root::Decl(d) => Some(d),
        _ => None,
    };
    let ss: Vec<Site> = sites(p, r)
        .into_iter()
        .filter(|s| s.empty_ann && s.closed && !s.callee)
        .filter(|s| {
            let e = get(p, s);
            // a function value cannot be named by a plain let of the same meaning only if it is a variable: allowed
            !matches!(e, E::Prop { .. } if false) && enclosing.map_or(true, |d| !reaches(p, e, d))
        })
        .collect();
    if ss.is_empty() {
        return None;
    }
    let s = rng.pick(&ss).clone();
    let m = module_of(p, r);
    let mut q = p.clone();
    let name = fresh(p, "zn", rng);
    let kind = site_kind(p, &s);
    let id = q.decls.len();
    let x = get_mut(&mut q, &s);
    let e = std::mem::replace(x, E::var(&name, Target::Decl(id)));
    q.decls.push(Decl {
        module: m,
        name,
        params: vec![],
        anns: vec![],
        rhs: e,
        ty: Ty::Obj,
    });
    insert_let(&mut q, m, id, rng);
    Some((
        q,
        Applied {
            what: "name-with-let".into(),
            site: kind,
            ..Default::default()
        },
    ))
}

/// (2b) inline a plain, unannotated, non-recursive declaration at a use in its own module.
pub fn rw_inline(p: &Program, rng: &mut Rng) -> Option<(Program, Applied)> {
    let rs = roots(p);
    let mut cands: Vec<(Site, DeclId)> = Vec::new();
    for r in rs {
        let m = module_of(p, r);
        for s in sites(p, r) {
            if s.callee {
                continue;
            }
            if let E::Var {
                target: Target::Decl(d),
                qual: None,
                ..
            } = get(p, &s)
            {
                let dd = &p.decls[*d];
                if dd.module == m && !dd.is_fun() && !dd.is_ref() && dd.anns.is_empty() && !reaches(p, &dd.rhs, *d) {
                    // no capture: names used by the right-hand side must not be bound locally at the site
                    let mut captured = false;
                    dd.rhs.visit(&mut |x| {
                        if let E::Var { name, qual: None, target, .. } = x {
                            if !matches!(target, Target::Rec(_)) && s.scope_names.contains(name) {
                                captured = true;
                            }
                        }
                    });
                    // rec binders of the inlined text must not be captured either: they are bound inside it
                    if !captured {
                        cands.push((s.clone(), *d));
                    }
                }
            }
        }
    }
    if cands.is_empty() {
        return None;
    }
    let (s, d) = rng.pick(&cands).clone();
    let mut q = p.clone();
    // rec ids inside the copy must be fresh
    let mut body = p.decls[d].rhs.clone();
    let mut map: Vec<(RecId, RecId)> = Vec::new();
    body.visit(&mut |x| {
        if let E::Rec { id, .. } = x {
            map.push((*id, 0));
        }
    });
    for (k, (_, n)) in map.iter_mut().enumerate() {
        *n = q.n_recs + k;
    }
    q.n_recs += map.len();
    fn renum(e: &mut E, map: &[(RecId, RecId)]) {
        match e {
            E::Rec { id, .. } => {
                if let Some((_, n)) = map.iter().find(|(o, _)| o == id) {
                    *id = *n;
                }
            }
            E::Var {
                target: Target::Rec(id),
                ..
            } => {
                if let Some((_, n)) = map.iter().find(|(o, _)| o == id) {
                    *id = *n;
                }
            }
            _ => {}
        }
        for c in e.children_mut() {
            renum(c, map);
        }
    }
    renum(&mut body, &map);
    *get_mut(&mut q, &s) = E::Paren(Box::new(body));
    Some((
        q,
        Applied {
            what: "inline-declaration".into(),
            site: "variable".into(),
            ..Default::default()
        },
    ))
}

/// (3) abstract a closed sub-expression of a closed expression into a fresh single-use function.
pub fn rw_abstract(p: &Program, rng: &mut Rng) -> Option<(Program, Applied)> {
    let rs = roots(p);
    let r = *rng.pick(&rs);
    let enclosing = match r {
        Root::Decl(d) => Some(d),
        _ => None,
    };
    let all = sites(p, r);
    // outer context C: closed, not a callee, not reaching the enclosing declaration
    let outers: Vec<&Site> = all
        .iter()
        .filter(|s| s.closed && !s.callee && enclosing.map_or(true, |d| !reaches(p, get(p, s), d)))
        .filter(|s| get(p, s).size() >= 2)
        .collect();
    if outers.is_empty() {
        return None;
    }
    let c = (*rng.pick(&outers)).clone();
    let c_expr = get(p, &c).clone();
    // inner sites of C: strictly inside, closed, receive the empty annotation, not a callee
    let size = c_expr.size();
    // Not the body of a `rec`: the function would contain `rec x <parameter>`, a cut point that is not headed
    // by a schema constructor, whose kind per-module inference cannot resolve once the function is moved
    // to another module (same rule as the generator's for cut points).
    let mut rec_bodies: Vec<usize> = Vec::new();
    {
        let mut k = 0usize;
        fn mark(e: &E, k: &mut usize, out: &mut Vec<usize>, under_rec: bool) {
            let me = *k;
            *k += 1;
            if under_rec {
                out.push(me);
            }
            match e {
                E::Rec { body, .. } => mark(body, k, out, true),
                E::Paren(i) => mark(i, k, out, under_rec),
                E::Ann { e: i, .. } => mark(i, k, out, under_rec),
                other => {
                    // `|` has the kind of its operands: taking the only resolved operand out of a rec body
                    // `{ } | x | x` leaves `rec x p | x | x`, as unresolved as `rec x p`
                    let pass = under_rec && matches!(other, E::Op { op: OpK::Sum, .. });
                    for c in other.children() {
                        mark(c, k, out, pass);
                    }
                }
            }
        }
        mark(root_expr(p, r), &mut k, &mut rec_bodies, false);
    }
    let inner: Vec<&Site> = all
        .iter()
        .filter(|s| s.idx > c.idx && s.idx < c.idx + size && s.closed && s.empty_ann && !s.callee)
        .filter(|s| !rec_bodies.contains(&s.idx))
        .collect();
    if inner.is_empty() {
        return None;
    }
    let e_site = (*rng.pick(&inner)).clone();
    let m = module_of(p, r);
    let mut q = p.clone();
    let fname = fresh(p, "zf", rng);
    let pname = fresh(p, "zp", rng);
    let id = q.decls.len();
    // build the body: C with e replaced by the parameter
    let mut body = c_expr.clone();
    let rel = e_site.idx - c.idx;
    let e_expr = {
        let x = nth_mut(&mut body, &mut rel.clone()).unwrap();
        std::mem::replace(x, E::var(&pname, Target::Param(id, 0)))
    };
    let kind = site_kind(p, &c);
    *get_mut(&mut q, &c) = E::App {
        f: Box::new(E::var(&fname, Target::Decl(id))),
        args: vec![e_expr],
    };
    q.decls.push(Decl {
        module: m,
        name: fname,
        params: vec![pname],
        anns: vec![],
        rhs: body,
        ty: Ty::Fun(vec![Ty::Obj], Box::new(Ty::Obj)),
    });
    insert_let(&mut q, m, id, rng);
    Some((
        q,
        Applied {
            what: "abstract-into-function".into(),
            site: kind,
            ..Default::default()
        },
    ))
}

/// (4) rename one binder and all occurrences bound to it.
pub fn rw_rename(p: &Program, rng: &mut Rng) -> Option<(Program, Applied)> {
    let mut q = p.clone();
    let mut binders: Vec<Target> = Vec::new();
    for (d, dd) in p.decls.iter().enumerate() {
        binders.push(Target::Decl(d));
        for i in 0..dd.params.len() {
            binders.push(Target::Param(d, i));
        }
    }
    for r in roots(p) {
        root_expr(p, r).visit(&mut |x| {
            if let E::Rec { id, .. } = x {
                binders.push(Target::Rec(*id));
            }
        });
    }
    if binders.is_empty() {
        return None;
    }
    let b = rng.pick(&binders).clone();
    let mut ref_rename = None;
    // A parameter may also be renamed to a name that other functions use for their parameters (not
    // globally fresh, but capture-free in its own function): lexically the same program.
    let reuse: Option<String> = match &b {
        Target::Param(d, _) if rng.chance(1, 2) => {
            let dd = &p.decls[*d];
            let mut names: Vec<String> = Vec::new();
            for (o, od) in p.decls.iter().enumerate() {
                if o != *d {
                    names.extend(od.params.iter().cloned());
                }
            }
            names.retain(|n| {
                let mut clash = dd.params.contains(n);
                dd.rhs.visit(&mut |x| match x {
                    E::Var { name, qual: None, .. } if name == n => clash = true,
                    E::Rec { binder, .. } if binder == n => clash = true,
                    _ => {}
                });
                !clash
            });
            if names.is_empty() {
                None
            } else {
                Some(rng.pick(&names).clone())
            }
        }
        _ => None,
    };
    let new = match &b {
        _ if reuse.is_some() => reuse.clone().unwrap(),
        Target::Decl(d) if p.decls[*d].is_ref() => {
            let n = format!("@zr{}", rng.below(100000));
            ref_rename = Some((p.decls[*d].name[1..].to_owned(), n[1..].to_owned()));
            n
        }
        _ => fresh(p, "zv", rng),
    };
    match &b {
        Target::Decl(d) => q.decls[*d].name = new.clone(),
        Target::Param(d, i) => q.decls[*d].params[*i] = new.clone(),
        _ => {}
    }
    fn go(e: &mut E, b: &Target, new: &str) {
        match e {
            E::Var { name, target, .. } if target == b => *name = new.to_owned(),
            E::Rec { binder, id, .. } if *b == Target::Rec(*id) => *binder = new.to_owned(),
            _ => {}
        }
        for c in e.children_mut() {
            go(c, b, new);
        }
    }
    for r in roots(p) {
        go(root_expr_mut(&mut q, r), &b, &new);
    }
    let kind = match b {
        Target::Decl(d) => {
            if p.decls[d].is_ref() {
                "reference-declaration"
            } else if p.decls[d].is_fun() {
                "function-declaration"
            } else {
                "declaration"
            }
        }
        Target::Param(..) => "parameter",
        Target::Rec(_) => "rec-binder",
        Target::Builtin(_) => "builtin",
    };
    Some((
        q,
        Applied {
            what: "rename-binder".into(),
            site: kind.into(),
            ref_rename,
            ..Default::default()
        },
    ))
}

/// (4') rename an import qualifier and its uses.
pub fn rw_rename_qualifier(p: &Program, rng: &mut Rng) -> Option<(Program, Applied)> {
    let mut cands = Vec::new();
    for (mi, m) in p.modules.iter().enumerate() {
        for (si, s) in m.stmts.iter().enumerate() {
            if let Stmt::Use { qual: Some(q), .. } = s {
                cands.push((mi, si, q.clone()));
            }
        }
    }
    if cands.is_empty() {
        return None;
    }
    let (mi, si, old) = rng.pick(&cands).clone();
    let new = format!("zq{}", rng.below(100000));
    let mut q = p.clone();
    if let Stmt::Use { qual, .. } = &mut q.modules[mi].stmts[si] {
        *qual = Some(new.clone());
    }
    fn go(e: &mut E, old: &str, new: &str) {
        if let E::Var { qual: Some(ql), .. } = e {
            if ql == old {
                *ql = new.to_owned();
            }
        }
        for c in e.children_mut() {
            go(c, old, new);
        }
    }
    for r in roots(p) {
        if module_of(p, r) == mi {
            go(root_expr_mut(&mut q, r), &old, &new);
        }
    }
    Some((
        q,
        Applied {
            what: "rename-binder".into(),
            site: "qualifier".into(),
            ..Default::default()
        },
    ))
}

/// (5) permute statements (use statements keep their relative order).
pub fn rw_permute(p: &Program, rng: &mut Rng) -> Option<(Program, Applied)> {
    let mut q = p.clone();
    for m in q.modules.iter_mut() {
        // `use` statements keep their relative order and may stand anywhere
        let uses: Vec<Stmt> = m.stmts.iter().filter(|s| matches!(s, Stmt::Use { .. })).cloned().collect();
        let mut rest: Vec<Stmt> = m.stmts.iter().filter(|s| !matches!(s, Stmt::Use { .. })).cloned().collect();
        rng.shuffle(&mut rest);
        let mut at = 0;
        for u in uses {
            at = rng.range(at, rest.len());
            rest.insert(at, u);
            at += 1;
        }
        m.stmts = rest;
    }
    Some((
        q,
        Applied {
            what: "permute-statements".into(),
            site: "module".into(),
            ..Default::default()
        },
    ))
}

/// (7) move a dependency-closed set of main-module declarations into a new module imported with a fresh qualifier.
pub fn rw_move(p: &Program, rng: &mut Rng) -> Option<(Program, Applied)> {
    let main_decls: Vec<DeclId> = (0..p.decls.len()).filter(|d| p.decls[*d].module == 0).collect();
    if main_decls.is_empty() || p.modules.iter().any(|m| m.file.ends_with("moved.oal")) {
        return None;
    }
    // seed with a random declaration, close under mentions (within the main module)
    let mut set: Vec<DeclId> = vec![*rng.pick(&main_decls)];
    if rng.chance(1, 2) {
        set.push(*rng.pick(&main_decls));
    }
    let mut i = 0;
    while i < set.len() {
        for m in Program::mentions(&p.decls[set[i]].rhs) {
            if p.decls[m].module == 0 && !set.contains(&m) {
                set.push(m);
            }
        }
        i += 1;
    }
    set.sort();
    set.dedup();
    let qual = format!("zm{}", rng.below(100000));
    let mut q = p.clone();
    let new_mod = q.modules.len();
    // use lines of main needed by the moved declarations
    let mut needed: Vec<usize> = Vec::new();
    for d in &set {
        for m in Program::mentions(&p.decls[*d].rhs) {
            let mm = p.decls[m].module;
            if mm != 0 && !needed.contains(&mm) {
                needed.push(mm);
            }
        }
    }
    // the new module lives next to main or in a directory of its own (its imports are then spelled relative to
    // that directory: a module's imports are relative to the module, not to the main module)
    let subdir = rng.chance(1, 2);
    let new_file = if subdir { "zmv/moved.oal" } else { "moved.oal" };
    let mut stmts: Vec<Stmt> = Vec::new();
    for s in &p.modules[0].stmts {
        if let Stmt::Use { target, qual, .. } = s {
            if needed.contains(target) {
                if subdir {
                    stmts.push(Stmt::Use {
                        path: format!("../{}", p.modules[*target].file),
                        target: *target,
                        qual: qual.clone(),
                    });
                } else {
                    stmts.push(s.clone());
                }
            }
        }
    }
    for d in &set {
        stmts.push(Stmt::Let { id: *d });
        q.decls[*d].module = new_mod;
    }
    q.modules.push(Module {
        file: new_file.into(),
        stmts,
    });
    // main: drop the moved lets, add the import, qualify references from what stays
    q.modules[0].stmts.retain(|s| !matches!(s, Stmt::Let { id } if set.contains(id)));
    let first = q.modules[0]
        .stmts
        .iter()
        .position(|s| !matches!(s, Stmt::Use { .. }))
        .unwrap_or(q.modules[0].stmts.len());
    q.modules[0].stmts.insert(
        first,
        Stmt::Use {
            path: new_file.into(),
            target: new_mod,
            qual: Some(qual.clone()),
        },
    );
    fn go(e: &mut E, set: &[DeclId], qual: &str) {
        if let E::Var {
            qual: ql,
            target: Target::Decl(d),
            ..
        } = e
        {
            if set.contains(d) {
                *ql = Some(qual.to_owned());
            }
        }
        for c in e.children_mut() {
            go(c, set, qual);
        }
    }
    for r in roots(&q) {
        if module_of(&q, r) == 0 {
            go(root_expr_mut(&mut q, r), &set, &qual);
        }
    }
    // other modules never referred to main's declarations (imports are acyclic), nothing else to fix
    Some((
        q,
        Applied {
            what: "move-to-module".into(),
            site: format!("{}-declarations", set.len().min(3)),
            ..Default::default()
        },
    ))
}

/// Applies one random rewrite. `targets_valid`: the binding targets of the AST are accurate (generated
/// programs), which the binder-level rewrites need.
pub fn random_rewrite(p: &Program, rng: &mut Rng, targets_valid: bool) -> Option<(Program, Applied)> {
    // Without accurate binding information (mutants) only the purely syntactic rewrites apply; statement
    // permutation of mutants is left out because of the open findings on duplicate paths and on use-site
    // annotations of shared components (both order dependent).
    let k = if targets_valid { rng.below(10) } else { *rng.pick(&[0usize, 6]) };
    match k {
        0 => rw_paren(p, rng),
        1 => rw_name(p, rng),
        2 => rw_inline(p, rng),
        3 => rw_abstract(p, rng),
        4 => rw_rename(p, rng),
        5 => rw_permute(p, rng),
        6 => Some((
            p.clone(),
            Applied {
                what: "insert-trivia".into(),
                site: "tokens".into(),
                trivia: true,
                ..Default::default()
            },
        )),
        7 => rw_move(p, rng),
        8 => rw_rename_qualifier(p, rng),
        _ => rw_paren(p, rng),
    }
}
