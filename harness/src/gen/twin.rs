//! Twin modules: a leaf module is copied under the same base name into another directory (`a.oal` ->
//! `twin/a.oal`), with the same token shape but different property names, and both copies are used from the
//! main module. Whatever identifies a syntax node, a type variable or a recursion point by "position in its
//! module" without the module itself confuses the twins (realistic: `v1/types.oal`, `v2/types.oal`).

use super::ast::*;
use crate::util::Rng;
use std::collections::HashMap;

fn remap(e: &mut E, dmap: &HashMap<DeclId, DeclId>, names: &HashMap<DeclId, String>, rec_off: usize) {
    match e {
        E::Var { target, name, .. } => match target {
            Target::Decl(d) => {
                if let Some(n) = dmap.get(d) {
                    *d = *n;
                    if let Some(nn) = names.get(n) {
                        *name = nn.clone();
                    }
                }
            }
            Target::Param(d, _) => {
                if let Some(n) = dmap.get(d) {
                    *d = *n;
                }
            }
            Target::Rec(r) => *r += rec_off,
            _ => {}
        },
        E::Rec { id, .. } => *id += rec_off,
        E::Prop { name, .. } => name.push('2'),
        _ => {}
    }
    for c in e.children_mut() {
        remap(c, dmap, names, rec_off);
    }
}

/// Adds a twin of one leaf module to `p` and uses both copies from the main module. Returns false if the
/// program has no leaf module other than main.
pub fn add_twin(p: &mut Program, rng: &mut Rng) -> bool {
    let leaves: Vec<usize> = (1..p.modules.len())
        .filter(|&m| !p.modules[m].stmts.iter().any(|s| matches!(s, Stmt::Use { .. })))
        .filter(|&m| p.modules[m].stmts.iter().any(|s| matches!(s, Stmt::Let { .. })))
        .collect();
    if leaves.is_empty() {
        return false;
    }
    let m = *rng.pick(&leaves);
    let base = p.modules[m].file.rsplit('/').next().unwrap_or("a.oal").to_owned();
    let twin_file = format!("twin/{base}");
    if p.modules.iter().any(|x| x.file == twin_file) {
        return false;
    }
    let t = p.modules.len();
    let rec_off = p.n_recs;
    let ids: Vec<DeclId> = p.modules[m]
        .stmts
        .iter()
        .filter_map(|s| match s {
            Stmt::Let { id } => Some(*id),
            _ => None,
        })
        .collect();
    let mut dmap: HashMap<DeclId, DeclId> = HashMap::new();
    let mut names: HashMap<DeclId, String> = HashMap::new();
    for (k, d) in ids.iter().enumerate() {
        let nd = p.decls.len() + k;
        dmap.insert(*d, nd);
        if p.decls[*d].is_ref() {
            // a reference name denotes one component of the document: the twin gets its own
            names.insert(nd, format!("{}T9", p.decls[*d].name));
        }
    }
    for d in &ids {
        let mut nd = p.decls[*d].clone();
        nd.module = t;
        if let Some(n) = names.get(&dmap[d]) {
            nd.name = n.clone();
        }
        remap(&mut nd.rhs, &dmap, &names, rec_off);
        p.decls.push(nd);
    }
    let mut stmts = Vec::new();
    for s in &p.modules[m].stmts {
        match s {
            Stmt::Let { id } => stmts.push(Stmt::Let { id: dmap[id] }),
            Stmt::Res { e } => {
                let mut e = e.clone();
                remap(&mut e, &dmap, &names, rec_off);
                stmts.push(Stmt::Res { e });
            }
            Stmt::Use { .. } => {}
        }
    }
    p.modules.push(Module { file: twin_file.clone(), stmts });
    p.n_recs += rec_off;
    // both copies are imported by main under fresh qualifiers and every schema-valued declaration of each
    // is published by a resource of its own
    let (qo, qt) = ("zo".to_owned(), "zt".to_owned());
    let orig_path = p.modules[m].file.clone();
    for (q, path, target) in [(&qo, orig_path, m), (&qt, twin_file, t)] {
        let at = rng.below(p.modules[0].stmts.len() + 1);
        p.modules[0].stmts.insert(
            at,
            Stmt::Use {
                path,
                target,
                qual: Some(q.clone()),
            },
        );
    }
    let mut k = 0;
    for d in &ids {
        let dd = &p.decls[*d];
        if dd.is_fun() || !dd.ty.is_schema() {
            continue;
        }
        for (q, id) in [(&qo, *d), (&qt, dmap[d])] {
            let name = p.decls[id].name.clone();
            let body = E::Var {
                qual: Some(q.clone()),
                name,
                target: Target::Decl(id),
            };
            let e = E::Rel {
                uri: Box::new(E::UriT {
                    segs: vec![Seg::Lit(format!("{q}{k}"))],
                    params: None,
                }),
                xfers: vec![E::Xfer {
                    methods: vec![0],
                    params: None,
                    domain: None,
                    range: Box::new(E::Content {
                        metas: vec![],
                        body: Some(Box::new(body)),
                    }),
                }],
            };
            p.modules[0].stmts.push(Stmt::Res { e });
        }
        k += 1;
        if k >= 3 {
            break;
        }
    }
    true
}

/// Shadowed imports: before the `use "<A>" as q;` of a module M, another module S is imported under the same
/// qualifier; S declares the names of A that M uses through `q`, as values of another kind. The later import
/// wins, so every `q.name` still denotes A's declaration. Sometimes A is also imported once more in front
/// (`A, S, A`). Whatever forgets the order of `use` statements, or treats a repeated import as redundant, binds
/// `q.name` to S.
pub fn add_shadow_import(p: &mut Program, rng: &mut Rng) -> bool {
    // (module, statement index, target, qualifier, path)
    let mut cands: Vec<(usize, usize, usize, String, String)> = Vec::new();
    for (m, md) in p.modules.iter().enumerate() {
        for (si, s) in md.stmts.iter().enumerate() {
            if let Stmt::Use { path, target, qual: Some(q) } = s {
                // the only import under this qualifier
                let unique = md.stmts.iter().filter(|x| matches!(x, Stmt::Use { qual: Some(q2), .. } if q2 == q)).count() == 1;
                if unique {
                    cands.push((m, si, *target, q.clone(), path.clone()));
                }
            }
        }
    }
    if cands.is_empty() {
        return false;
    }
    let (m, si, a, q, a_path) = rng.pick(&cands).clone();
    // names of A used through q in M (not @references: a reference name denotes one component of the document)
    let mut names: Vec<String> = Vec::new();
    for e in p.module_exprs(m) {
        e.visit(&mut |x| {
            if let E::Var { qual: Some(q2), name, target: Target::Decl(d) } = x {
                if *q2 == q && p.decls[*d].module == a && !name.starts_with('@') && !names.contains(name) {
                    names.push(name.clone());
                }
            }
        });
    }
    if names.is_empty() {
        return false;
    }
    let dir = match p.modules[m].file.rfind('/') {
        Some(i) => p.modules[m].file[..=i].to_owned(),
        None => String::new(),
    };
    let file = format!("{dir}zshadow.oal");
    if p.modules.iter().any(|x| x.file == file) {
        return false;
    }
    let s_idx = p.modules.len();
    let mut stmts = Vec::new();
    for n in &names {
        let id = p.decls.len();
        let was_text = p.decls.iter().any(|d| d.module == a && d.name == *n && d.ty == Ty::Text);
        p.decls.push(Decl {
            module: s_idx,
            name: n.clone(),
            params: vec![],
            anns: vec![],
            rhs: if was_text { E::LitNum(7) } else { E::LitStr("shadow".into()) },
            ty: if was_text { Ty::Num } else { Ty::Text },
        });
        stmts.push(Stmt::Let { id });
    }
    // ... and one name of its own, used by the importer through the shared qualifier: imports under one qualifier add
    // up, a later one does not replace an earlier one
    let own = p.decls.len();
    p.decls.push(Decl {
        module: s_idx,
        name: "zsown".into(),
        params: vec![],
        anns: vec![],
        rhs: E::LitStr("only in the shadow".into()),
        ty: Ty::Text,
    });
    stmts.push(Stmt::Let { id: own });
    let user = p.decls.len();
    p.decls.push(Decl {
        module: m,
        name: "zsuser".into(),
        params: vec![],
        anns: vec![],
        rhs: E::Var {
            qual: Some(q.clone()),
            name: "zsown".into(),
            target: Target::Decl(own),
        },
        ty: Ty::Text,
    });
    p.modules[m].stmts.push(Stmt::Let { id: user });
    p.modules.push(Module { file, stmts });
    let shadow_use = Stmt::Use {
        path: "zshadow.oal".into(),
        target: s_idx,
        qual: Some(q.clone()),
    };
    p.modules[m].stmts.insert(si, shadow_use);
    if rng.chance(1, 2) {
        // A, S, A
        p.modules[m].stmts.insert(
            si,
            Stmt::Use {
                path: a_path,
                target: a,
                qual: Some(q),
            },
        );
    }
    true
}

/// Rec binders named like something used earlier in the same statement: in
/// `let f x = { 'b x, 'a (rec x { 'c x }) };` the last `x` denotes the rec binder, the first one the
/// parameter. A rec binder of a statement takes the name of a declaration or parameter that the statement uses
/// in front of the `rec` term, where nothing in the body of the `rec` would be captured by that. Whatever
/// remembers where a name was found across the opening of a scope binds the inner use to the outer name.
/// Returns the number of binders renamed.
pub fn add_rec_shadows(p: &mut Program, rng: &mut Rng) -> (usize, usize) {
    fn captures(body: &E, name: &str, id: RecId) -> bool {
        let mut bad = false;
        body.visit(&mut |x| match x {
            E::Var { qual: None, name: n, target } if n == name && *target != Target::Rec(id) => bad = true,
            E::Rec { binder, .. } if binder == name => bad = true,
            _ => {}
        });
        bad
    }
    fn rename_uses(e: &mut E, id: RecId, to: &str) {
        if let E::Var { name, target: Target::Rec(r), .. } = e {
            if *r == id {
                *name = to.to_owned();
            }
        }
        for c in e.children_mut() {
            rename_uses(c, id, to);
        }
    }
    // seen: (name, is a parameter); returns (binders named like a declaration, binders named like a parameter)
    fn walk(e: &mut E, seen: &mut Vec<(String, bool)>, rng: &mut Rng) -> (usize, usize) {
        let mut n = (0, 0);
        match e {
            E::Var {
                qual: None,
                name,
                target: target @ (Target::Decl(_) | Target::Param(..)),
            } if !name.starts_with('@') && !seen.iter().any(|(s, _)| s == name) => seen.push((name.clone(), matches!(target, Target::Param(..)))),
            E::Rec { binder, id, body } => {
                let mut cands: Vec<(String, bool)> = seen.iter().filter(|(c, _)| c != binder && !captures(body, c, *id)).cloned().collect();
                // a parameter rather than a declaration, mostly: the evaluator finds parameters by name
                if cands.iter().any(|c| c.1) && rng.chance(3, 4) {
                    cands.retain(|c| c.1);
                }
                if !cands.is_empty() && rng.chance(3, 4) {
                    let (c, is_param) = rng.pick(&cands).clone();
                    rename_uses(body, *id, &c);
                    *binder = c;
                    if is_param {
                        n.1 += 1;
                    } else {
                        n.0 += 1;
                    }
                }
            }
            _ => {}
        }
        for c in e.children_mut() {
            let k = walk(c, seen, rng);
            n = (n.0 + k.0, n.1 + k.1);
        }
        n
    }
    let mut n = (0, 0);
    for d in 0..p.decls.len() {
        let mut seen = Vec::new();
        let k = walk(&mut p.decls[d].rhs, &mut seen, rng);
        n = (n.0 + k.0, n.1 + k.1);
    }
    for m in p.modules.iter_mut() {
        for s in m.stmts.iter_mut() {
            if let Stmt::Res { e } = s {
                let mut seen = Vec::new();
                let k = walk(e, &mut seen, rng);
                n = (n.0 + k.0, n.1 + k.1);
            }
        }
    }
    n
}

/// Header names that differ by case only: a literal `headers = { ... }` object gets a copy of its first header under
/// the same name in another case (`'ETag` and `'etag`). They are two properties of the object and two headers of the
/// document. Whatever treats header names as equal up to case (as HTTP does) in one place and as spelled in another
/// loses or merges one of them. Returns the number of objects extended.
pub fn add_header_case_twins(p: &mut Program, rng: &mut Rng) -> usize {
    fn flip(name: &str) -> Option<String> {
        let l = name.to_ascii_lowercase();
        let u = name.to_ascii_uppercase();
        if l != name {
            Some(l)
        } else if u != name {
            Some(u)
        } else {
            None
        }
    }
    fn walk(e: &mut E, rng: &mut Rng) -> usize {
        let mut n = 0;
        if let E::Content { metas, .. } = e {
            for (k, v) in metas.iter_mut() {
                if *k != MetaK::Headers {
                    continue;
                }
                if let E::Obj(ps) = v {
                    // first plain property of the object (annotated ones are wrapped)
                    let first = ps.iter().find_map(|x| match x {
                        E::Prop { name, .. } => Some((name.clone(), x.clone())),
                        _ => None,
                    });
                    if let Some((name, prop)) = first {
                        if let Some(other) = flip(&name) {
                            let taken = ps.iter().any(|x| matches!(x.peel(), E::Prop { name: n2, .. } if *n2 == other));
                            if !taken && rng.chance(2, 3) {
                                let mut twin = prop;
                                if let E::Prop { name, .. } = &mut twin {
                                    *name = other;
                                }
                                ps.push(twin);
                                n += 1;
                            }
                        }
                    }
                }
            }
        }
        for c in e.children_mut() {
            n += walk(c, rng);
        }
        n
    }
    let mut n = 0;
    for d in 0..p.decls.len() {
        n += walk(&mut p.decls[d].rhs, rng);
    }
    for m in p.modules.iter_mut() {
        for s in m.stmts.iter_mut() {
            if let Stmt::Res { e } = s {
                n += walk(e, rng);
            }
        }
    }
    n
}
