//! G-wt: type-directed generator of programs accepted by the language definition (DESIGN.md 3.3).

use super::ast::*;
use crate::util::Rng;

#[derive(Clone, Debug)]
pub struct Cfg {
    pub max_modules: usize,
    pub min_decls: usize,
    pub max_decls: usize,
    pub depth: usize,
    pub annotations: bool,
    /// out of 100: probability that a variable choice prefers a back edge to a cut point
    pub rec_bias: u32,
    pub max_res: usize,
    /// small name pools so that shadowing is the norm
    pub shadowing: bool,
    /// generate `examples` annotations with >= 2 entries
    pub multi_examples: bool,
    /// allow two status-less contents with different media in one range (needs the C02 `default` fix)
    pub allow_default_multi_media: bool,
    /// number of identifier names in the pool (smaller = more shadowing)
    pub pool: usize,
    /// rarely generate numeric statuses outside 100..=599 (the located error "invalid literal" is expected)
    pub invalid_status: bool,
    /// out of 100: share of declarations that are functions
    pub fun_pct: u32,
    /// minimum number of parameters of a function
    pub min_params: usize,
    /// parameter kinds spread evenly over kinds with different casts (schema, content, text, status, transfer, ...)
    pub spread_params: bool,
    /// out of 100: share of multi-module programs in which a leaf module gets a twin (same base name and token
    /// shape in another directory) and both are used from main
    pub twin_pct: u32,
    /// out of 100: share of multi-module programs in which a qualified import is preceded by an import of a
    /// shadow module under the same qualifier (the later import wins); only for checks that do not rename or
    /// move import statements
    pub shadow_pct: u32,
    /// one case in this many (those with index 1 modulo it) gets rec binders named like a declaration or parameter
    /// that the same statement uses in front of the `rec` term (applied by `gen_wt_case`)
    pub rec_shadow_every: u64,
}

impl Cfg {
    /// Many functions of several parameters of unlike kinds calling each other: what exposes scoping and
    /// argument-passing mistakes of the evaluator as failing casts.
    pub fn call_heavy(self) -> Cfg {
        Cfg {
            fun_pct: 50,
            min_params: 2,
            spread_params: true,
            ..self
        }
    }
}

impl Default for Cfg {
    fn default() -> Self {
        Cfg {
            max_modules: 3,
            min_decls: 2,
            max_decls: 7,
            depth: 4,
            annotations: true,
            rec_bias: 15,
            max_res: 3,
            shadowing: true,
            multi_examples: true,
            allow_default_multi_media: true,
            pool: 12,
            invalid_status: false,
            fun_pct: 22,
            min_params: 1,
            spread_params: false,
            twin_pct: 15,
            shadow_pct: 0,
            rec_shadow_every: 3,
        }
    }
}

#[derive(Clone, Debug)]
struct Plan {
    module: usize,
    name: String,
    params: Vec<(String, Ty)>,
    /// kind of the value (result kind for functions)
    ty: Ty,
    cut_ok: bool,
}

#[derive(Clone, Debug, Default)]
struct Scope {
    module: usize,
    decl: Option<DeclId>,
    params: Vec<(String, Ty, usize)>,
    recs: Vec<(String, Ty, RecId)>,
    /// inside a `res` statement: everything is generated already
    in_res: bool,
}

pub struct Gen<'r> {
    rng: &'r mut Rng,
    cfg: Cfg,
    plans: Vec<Plan>,
    generated: Vec<bool>,
    rhs: Vec<Option<E>>,
    anns: Vec<Vec<AnnMap>>,
    /// per module: (target module, qualifier)
    imports: Vec<Vec<(usize, Option<String>, String)>>,
    files: Vec<String>,
    n_recs: usize,
    uniq: usize,
    /// (module, path pattern) of generated `res` URIs, to keep resources distinct
    res_exprs: Vec<E>,
}

const NAMES: [&str; 12] = ["a", "b", "c", "x", "y", "f", "g", "id", "item", "q", "node", "v"];
const REF_NAMES: [&str; 15] = ["@r", "@s", "@t", "@obj", "@item", "@n1", "@ref-a", "@x", "@true", "@1e3", "@null", "@123", "@a$b", "@$v", "@p_q"];
const PROP_NAMES: [&str; 14] = [
    "id", "name", "n", "next", "items", "a", "b", "true", "null", "123", "x-y", "$v", "@at", "self",
];
// `%7Bid%7D` is a literal segment that spells braces: it must never turn into a path variable
const SEGS: [&str; 13] = ["a", "b", "items", "v1", "x.y", "A", "a-b", "%20", "~u", "_", "%7Bid%7D", "%7Bb%7D", "%41"];
const MEDIA: [&str; 5] = [
    "application/json",
    "application/xml",
    "text/plain",
    "application/vnd.x+json",
    "image/*",
];
const QUALS: [&str; 5] = ["m", "lib", "q", "a", "mod1"];
const HEADER_NAMES: [&str; 5] = ["ETag", "X-Id", "If-Match", "x-n", "Accept-Language"];
const STRS: [&str; 24] = [
    "text", "yes", "no", "1e3", "~", "a: b", "- x", " lead", "trail ", "été €", "null", "true", "0x1F", "#c", "{a}", "'q'",
    "a😉b", "😉", "価格 €", "no\u{a0}break", "ends in nbsp\u{a0}",
    "A long description with accents: é è à ü — it goes on and on, well past one hundred and twenty bytes, so that anything cutting it by bytes lands inside é…",
    "x価格価格価格価格価格価格価格価格価格価格価格価格価格価格価格価格価格価格価格価格価格価格価格価格価格価格価格価格価格価格価格価格価格価格価格価格価格価格価格価格価格",
    "ééééééééééééééééééééééééééééééééééééééééééééééééééééééééééééa😉ééééééééééééééééééééééééééééééé",
];

fn keyword(s: &str) -> bool {
    matches!(
        s,
        "num" | "str" | "uri" | "bool" | "int" | "get" | "put" | "post" | "patch" | "delete" | "options" | "head"
            | "media" | "headers" | "status" | "let" | "res" | "use" | "as" | "on" | "rec" | "concat"
    )
}

pub fn concat_ty() -> Ty {
    Ty::Fun(vec![Ty::Uri, Ty::Uri], Box::new(Ty::Uri))
}

impl<'r> Gen<'r> {
    pub fn new(rng: &'r mut Rng, cfg: Cfg) -> Self {
        Gen {
            rng,
            cfg,
            plans: Vec::new(),
            generated: Vec::new(),
            rhs: Vec::new(),
            anns: Vec::new(),
            imports: Vec::new(),
            files: Vec::new(),
            n_recs: 0,
            uniq: 0,
            res_exprs: Vec::new(),
        }
    }

    fn decl_ty(&self, d: DeclId) -> Ty {
        let p = &self.plans[d];
        if p.params.is_empty() {
            p.ty.clone()
        } else {
            Ty::Fun(p.params.iter().map(|(_, t)| t.clone()).collect(), Box::new(p.ty.clone()))
        }
    }

    fn pick_schema_ty(&mut self) -> Ty {
        match self.rng.below(100) {
            0..=44 => Ty::Obj,
            45..=64 => Ty::Prim,
            65..=74 => Ty::Arr,
            75..=81 => Ty::Any,
            82..=91 => Ty::Uri,
            _ => Ty::Rel,
        }
    }

    fn pick_value_ty(&mut self) -> Ty {
        match self.rng.below(100) {
            0..=54 => self.pick_schema_ty(),
            55..=64 => {
                let inner = if self.rng.chance(3, 4) { Ty::Prim } else { Ty::Obj };
                Ty::Prop(Box::new(inner))
            }
            65..=76 => Ty::Content,
            77..=82 => Ty::Ranges,
            83..=89 => Ty::Xfer,
            90..=95 => Ty::Text,
            96..=97 => Ty::Status,
            _ => Ty::Num,
        }
    }

    fn pick_param_ty(&mut self) -> Ty {
        if self.cfg.spread_params {
            return match self.rng.below(8) {
                0 => Ty::Obj,
                1 => Ty::Prim,
                2 => Ty::Content,
                3 => Ty::Text,
                4 => Ty::Status,
                5 => Ty::Xfer,
                6 => Ty::Prop(Box::new(Ty::Prim)),
                _ => self.pick_schema_ty(),
            };
        }
        match self.rng.below(100) {
            0..=34 => Ty::Obj,
            35..=49 => Ty::Prim,
            50..=59 => self.pick_schema_ty(),
            60..=69 => Ty::Prop(Box::new(Ty::Prim)),
            70..=79 => Ty::Content,
            80..=86 => Ty::Text,
            87..=90 => Ty::Xfer,
            91..=93 => Ty::Status,
            _ => {
                let a = self.pick_schema_ty();
                let r = self.pick_schema_ty();
                Ty::Fun(vec![a], Box::new(r))
            }
        }
    }

    fn fresh_name(&mut self, taken: &dyn Fn(&str) -> bool) -> String {
        for _ in 0..30 {
            let n = if self.cfg.shadowing {
                (*self.rng.pick(&NAMES[..self.cfg.pool.clamp(3, NAMES.len())])).to_owned()
            } else {
                format!("n{}", self.rng.below(1000))
            };
            if !taken(&n) && !keyword(&n) {
                return n;
            }
        }
        self.uniq += 1;
        format!("u{}", self.uniq)
    }

    fn plan(&mut self) {
        let m = self.rng.range(1, self.cfg.max_modules);
        // two modules share the base name `a.oal` in different directories
        // with four modules, lib/c.oal can import its sibling lib/a.oal as "a.oal" — the spelling main uses for a.oal
        let all_files: [&str; 4] = if m == 4 {
            ["main.oal", "a.oal", "lib/c.oal", "lib/a.oal"]
        } else {
            ["main.oal", "a.oal", "lib/a.oal", "lib/c.oal"]
        };
        self.files = all_files[..m].iter().map(|s| s.to_string()).collect();
        self.imports = vec![Vec::new(); m];
        // Every module i > 0 is imported by at least one module k < i.
        for i in 1..m {
            let k = self.rng.below(i);
            self.add_import(k, i);
            for k2 in 0..i {
                if k2 != k && self.rng.chance(1, 4) {
                    self.add_import(k2, i);
                }
            }
        }
        // Declarations, leaves first so that exported names are known when importers are planned.
        let mut ref_names_used: Vec<String> = Vec::new();
        let mut by_module: Vec<Vec<Plan>> = vec![Vec::new(); m];
        for mi in (0..m).rev() {
            let n = self.rng.range(self.cfg.min_decls, self.cfg.max_decls);
            // names exported by unqualified imports must not clash with local declarations
            let mut reserved: Vec<String> = vec!["concat".to_owned()];
            for (t, q, _) in &self.imports[mi] {
                if q.is_none() {
                    reserved.extend(by_module[*t].iter().map(|p| p.name.clone()));
                }
            }
            let mut plans: Vec<Plan> = Vec::new();
            for _ in 0..n {
                let is_fun = self.rng.chance(self.cfg.fun_pct, 100);
                let is_ref = !is_fun && self.rng.chance(22, 100);
                let ty = if is_ref { self.pick_schema_ty() } else { self.pick_value_ty() };
                let name = if is_ref {
                    let cands: Vec<&str> = REF_NAMES
                        .iter()
                        .copied()
                        .filter(|r| !ref_names_used.iter().any(|u| u == r))
                        .collect();
                    if cands.is_empty() {
                        continue;
                    }
                    let n = (*self.rng.pick(&cands)).to_owned();
                    ref_names_used.push(n.clone());
                    n
                } else {
                    let taken = |s: &str| reserved.iter().any(|r| r == s) || plans.iter().any(|p| p.name == s);
                    self.fresh_name(&taken)
                };
                let mut params: Vec<(String, Ty)> = Vec::new();
                if is_fun {
                    // Half of the functions take their parameter names from one shared sequence, so that a
                    // caller's parameter and a callee's parameter of the same name meet often.
                    let shared = self.cfg.shadowing && self.rng.chance(1, 2);
                    let np = self.rng.range(self.cfg.min_params.clamp(1, 3), 3);
                    for i in 0..np {
                        let pty = self.pick_param_ty();
                        let pn = if self.cfg.shadowing && self.rng.chance(1, 20) && !params.iter().any(|(n, _): &(String, Ty)| n == "concat") {
                            // a parameter may be named like the built-in, which it then shadows
                            "concat".to_owned()
                        } else if i > 0 && self.rng.chance(1, 12) {
                            // a repeated parameter name: the last one is the binder of the name
                            params[self.rng.below(i)].0.clone()
                        } else if shared {
                            ["x", "y", "v"][i].to_owned()
                        } else {
                            let taken = |s: &str| params.iter().any(|(n, _): &(String, Ty)| n == s);
                            self.fresh_name(&taken)
                        };
                        params.push((pn, pty));
                    }
                }
                let cut_ok = !is_fun && ty.is_cuttable() && self.rng.chance(45, 100);
                plans.push(Plan {
                    module: mi,
                    name,
                    params,
                    ty,
                    cut_ok,
                });
            }
            // Two unqualified imports must not export the same name, nor clash with what was reserved.
            by_module[mi] = plans;
        }
        // Fix up unqualified imports whose exported names collide: qualify them.
        for mi in 0..m {
            let mut seen: Vec<String> = by_module[mi].iter().map(|p| p.name.clone()).collect();
            seen.push("concat".to_owned());
            let mut used_quals: Vec<String> = self.imports[mi].iter().filter_map(|(_, q, _)| q.clone()).collect();
            for ii in 0..self.imports[mi].len() {
                let (t, q, _) = self.imports[mi][ii].clone();
                if q.is_none() {
                    let names: Vec<String> = by_module[t].iter().map(|p| p.name.clone()).collect();
                    if names.iter().any(|n| seen.contains(n)) {
                        let mut qn = (*self.rng.pick(&QUALS)).to_owned();
                        while used_quals.contains(&qn) {
                            self.uniq += 1;
                            qn = format!("m{}", self.uniq);
                        }
                        used_quals.push(qn.clone());
                        self.imports[mi][ii].1 = Some(qn);
                    } else {
                        seen.extend(names);
                    }
                }
            }
        }
        // Flatten: leaves first (generation order), declarations in planned order.
        for mi in (0..m).rev() {
            for p in by_module[mi].drain(..) {
                self.plans.push(p);
            }
        }
        let n = self.plans.len();
        self.generated = vec![false; n];
        self.rhs = vec![None; n];
        self.anns = vec![Vec::new(); n];
    }

    fn add_import(&mut self, from: usize, to: usize) {
        if self.imports[from].iter().any(|(t, _, _)| *t == to) {
            return;
        }
        let qual = if self.rng.chance(6, 10) {
            let mut q = (*self.rng.pick(&QUALS)).to_owned();
            while self.imports[from].iter().any(|(_, x, _)| x.as_deref() == Some(q.as_str())) {
                self.uniq += 1;
                q = format!("m{}", self.uniq);
            }
            Some(q)
        } else {
            None
        };
        // path of `to` relative to the directory of `from`
        let from_dir = self.files[from].rfind('/').map(|i| &self.files[from][..i]);
        let to_file = &self.files[to];
        let rel = match from_dir {
            None => to_file.clone(),
            Some(d) => {
                if let Some(rest) = to_file.strip_prefix(&format!("{d}/")) {
                    rest.to_owned()
                } else {
                    format!("../{to_file}")
                }
            }
        };
        let spelled = match self.rng.below(4) {
            0 => format!("./{rel}"),
            1 => format!("zz/../{rel}"),
            _ => rel,
        };
        self.imports[from].push((to, qual, spelled));
    }

    // ------------------------------------------------------------------ candidates

    fn var_candidates(&self, ty: &Ty, sc: &Scope) -> Vec<E> {
        let mut out = Vec::new();
        let mut seen: Vec<&str> = Vec::new();
        for (n, t, id) in sc.recs.iter().rev() {
            if !seen.contains(&n.as_str()) {
                if t == ty {
                    out.push(E::var(n, Target::Rec(*id)));
                }
                seen.push(n);
            }
        }
        if let Some(d) = sc.decl {
            for (n, t, i) in sc.params.iter() {
                let shadowed = sc.params.iter().any(|(n2, _, j)| n2 == n && j > i);
                if !seen.contains(&n.as_str()) && t == ty && !shadowed {
                    out.push(E::var(n, Target::Param(d, *i)));
                }
            }
            for (n, _, _) in sc.params.iter() {
                seen.push(n);
            }
        }
        for (d, p) in self.plans.iter().enumerate() {
            if p.module == sc.module && !seen.contains(&p.name.as_str()) && self.decl_ty(d) == *ty {
                let ok = sc.in_res || self.generated[d] || (p.cut_ok && Some(d) != sc.decl) || (p.cut_ok && Some(d) == sc.decl);
                if ok {
                    out.push(E::var(&p.name, Target::Decl(d)));
                }
            }
        }
        for (t, q, _) in &self.imports[sc.module] {
            for (d, p) in self.plans.iter().enumerate() {
                if p.module == *t && self.decl_ty(d) == *ty {
                    match q {
                        Some(q) => out.push(E::Var {
                            qual: Some(q.clone()),
                            name: p.name.clone(),
                            target: Target::Decl(d),
                        }),
                        None => {
                            if !seen.contains(&p.name.as_str()) {
                                out.push(E::var(&p.name, Target::Decl(d)));
                            }
                        }
                    }
                }
            }
        }
        if *ty == concat_ty() && !seen.contains(&"concat") {
            out.push(E::var("concat", Target::Builtin("concat".into())));
        }
        out
    }

    /// Function-valued candidates whose result kind is `ty`: (callee expression, parameter kinds).
    fn fun_candidates(&self, ty: &Ty, sc: &Scope) -> Vec<(E, Vec<Ty>)> {
        let mut out = Vec::new();
        let mut seen: Vec<&str> = Vec::new();
        for (n, _, _) in sc.recs.iter() {
            seen.push(n);
        }
        if let Some(d) = sc.decl {
            for (n, t, i) in sc.params.iter() {
                if let Ty::Fun(ps, r) = t {
                    let shadowed = sc.params.iter().any(|(n2, _, j)| n2 == n && j > i);
                    if **r == *ty && !sc.recs.iter().any(|(rn, _, _)| rn == n) && !shadowed {
                        out.push((E::var(n, Target::Param(d, *i)), ps.clone()));
                    }
                }
                seen.push(n);
            }
        }
        for (d, p) in self.plans.iter().enumerate() {
            if p.params.is_empty() || p.ty != *ty {
                continue;
            }
            let ptys: Vec<Ty> = p.params.iter().map(|(_, t)| t.clone()).collect();
            if p.module == sc.module {
                if !seen.contains(&p.name.as_str()) && (sc.in_res || self.generated[d]) {
                    out.push((E::var(&p.name, Target::Decl(d)), ptys));
                }
            } else if let Some((_, q, _)) = self.imports[sc.module].iter().find(|(t, _, _)| *t == p.module) {
                match q {
                    Some(q) => out.push((
                        E::Var {
                            qual: Some(q.clone()),
                            name: p.name.clone(),
                            target: Target::Decl(d),
                        },
                        ptys,
                    )),
                    None => {
                        if !seen.contains(&p.name.as_str()) {
                            out.push((E::var(&p.name, Target::Decl(d)), ptys));
                        }
                    }
                }
            }
        }
        if *ty == Ty::Uri && !seen.contains(&"concat") {
            out.push((E::var("concat", Target::Builtin("concat".into())), vec![Ty::Uri, Ty::Uri]));
        }
        out
    }

    // ------------------------------------------------------------------ annotation flow

    /// Could declaration d end up on a declaration cycle (so that it evaluates to a shared component)?
    fn maybe_recursive(&self, d: DeclId) -> bool {
        let mut stack = vec![d];
        let mut seen = vec![false; self.plans.len()];
        let mut first = true;
        while let Some(x) = stack.pop() {
            if !first && x == d {
                return true;
            }
            first = false;
            if seen[x] {
                continue;
            }
            seen[x] = true;
            match &self.rhs[x] {
                None => return true, // not generated yet: its future edges are unknown
                Some(r) => {
                    for m in Program::mentions(r) {
                        if m == d {
                            return true;
                        }
                        stack.push(m);
                    }
                }
            }
        }
        false
    }

    /// Does a non-empty annotation arriving at `e` flow into a shared component (an `@` reference, a
    /// possibly recursive declaration, or a `rec`)? Such flows are order dependent (open finding) and are
    /// not generated.
    fn flows_into_shared(&self, e: &E) -> bool {
        match e {
            E::Paren(i) => self.flows_into_shared(i),
            E::Ann { e, .. } => self.flows_into_shared(e),
            E::Rec { .. } => true,
            E::Var { target, .. } => match target {
                Target::Decl(d) => {
                    let p = &self.plans[*d];
                    if !p.params.is_empty() {
                        false
                    } else if p.name.starts_with('@') {
                        true
                    } else if p.ty.is_cuttable() && self.maybe_recursive(*d) {
                        true
                    } else {
                        match &self.rhs[*d] {
                            Some(r) => self.flows_into_shared(r),
                            None => true,
                        }
                    }
                }
                _ => false,
            },
            E::App { f, .. } => match f.as_ref() {
                E::Var {
                    target: Target::Decl(d),
                    ..
                } => match &self.rhs[*d] {
                    Some(r) => self.flows_into_shared(r),
                    None => true,
                },
                // a function-valued parameter: the callee is unknown here
                E::Var {
                    target: Target::Param(..),
                    ..
                } => true,
                _ => false,
            },
            _ => false,
        }
    }

    // ------------------------------------------------------------------ annotations

    fn ann_string(&mut self) -> AnnVal {
        let s = (*self.rng.pick(&STRS)).to_owned();
        if self.rng.chance(1, 5) && s.chars().all(|c| c.is_ascii_alphabetic()) && !matches!(s.as_str(), "null" | "true" | "false" | "yes" | "no") {
            AnnVal::Plain(s)
        } else if self.rng.chance(1, 6) && matches!(s.as_str(), "yes" | "no" | "text") {
            // YAML 1.2 core schema: yes/no are plain strings
            AnnVal::Plain(s)
        } else {
            AnnVal::Str(s)
        }
    }

    fn ann_number(&mut self) -> AnnVal {
        match self.rng.below(6) {
            0 => AnnVal::Int(0),
            1 => AnnVal::Int(self.rng.below(1000) as i64 - 300),
            2 => AnnVal::Float(self.rng.below(10000) as f64 / 100.0),
            3 => AnnVal::Float(-0.5),
            4 => AnnVal::Int(42),
            _ => AnnVal::Float(1.0),
        }
    }

    fn examples_val(&mut self) -> AnnVal {
        let n = if self.cfg.multi_examples { self.rng.range(1, 4) } else { 1 };
        let keys = ["default", "ex1", "big", "a", "zz"];
        let mut m = Vec::new();
        for i in 0..n {
            m.push((keys[i].to_owned(), AnnVal::Str(format!("examples/e{}.json", self.rng.below(9)))));
        }
        AnnVal::Map(m)
    }

    /// An annotation set relevant for an expression of the given form/kind.
    fn gen_ann(&mut self, e: &E, ty: &Ty) -> AnnMap {
        let mut m: AnnMap = Vec::new();
        let mut add = |m: &mut AnnMap, k: &str, v: AnnVal| {
            if !m.iter().any(|(pk, _)| pk == k) {
                m.push((k.to_owned(), v));
            }
        };
        let n = self.rng.range(1, 3);
        for _ in 0..n {
            let inner = e.peel();
            let roll = self.rng.below(100);
            match (inner, ty) {
                (E::Prim(PrimK::Num), _) | (E::Prim(PrimK::Int), _) if roll < 60 => {
                    let k = *self.rng.pick(&["minimum", "maximum", "multipleOf", "example"]);
                    let v = if self.rng.chance(1, 10) { AnnVal::Str("3".into()) } else { self.ann_number() };
                    add(&mut m, k, v);
                }
                (E::Prim(PrimK::Str), _) if roll < 60 => match self.rng.below(6) {
                    0 => add(&mut m, "pattern", AnnVal::Str("^[a-z]+$".into())),
                    1 => {
                        let mut xs = vec![self.ann_string(), self.ann_string()];
                        if self.rng.chance(1, 5) {
                            xs.push(AnnVal::Int(7));
                        }
                        add(&mut m, "enum", AnnVal::Seq(xs))
                    }
                    2 => add(&mut m, "format", AnnVal::Plain("email".into())),
                    3 => {
                        let v = if self.rng.chance(1, 6) { AnnVal::Int(42) } else { self.ann_string() };
                        add(&mut m, "example", v)
                    }
                    4 => add(&mut m, "minLength", AnnVal::Int(self.rng.below(5) as i64)),
                    _ => add(&mut m, "maxLength", AnnVal::Int(self.rng.below(50) as i64 - 2)),
                },
                (E::UriT { .. }, _) | (E::Prim(PrimK::Uri), _) if roll < 50 => {
                    add(&mut m, "example", AnnVal::Str("/x/1".into()))
                }
                (E::Prop { .. }, _) | (_, Ty::Prop(_)) if roll < 70 => {
                    if self.rng.chance(1, 2) {
                        let v = self.ann_string();
                        add(&mut m, "description", v)
                    } else {
                        add(&mut m, "required", AnnVal::Bool(self.rng.chance(1, 2)))
                    }
                }
                (E::Content { .. }, _) | (_, Ty::Content) if roll < 70 => {
                    if self.rng.chance(1, 2) {
                        let v = self.ann_string();
                        add(&mut m, "description", v)
                    } else {
                        let v = self.examples_val();
                        add(&mut m, "examples", v)
                    }
                }
                (E::Xfer { .. }, _) | (_, Ty::Xfer) if roll < 80 => match self.rng.below(4) {
                    0 => {
                        let v = self.ann_string();
                        add(&mut m, "description", v)
                    }
                    1 => {
                        let v = self.ann_string();
                        add(&mut m, "summary", v)
                    }
                    2 => {
                        let xs = vec![self.ann_string(), AnnVal::Plain("blah".into())];
                        add(&mut m, "tags", AnnVal::Seq(xs))
                    }
                    _ => {
                        self.uniq += 1;
                        add(&mut m, "operationId", AnnVal::Str(format!("op-{}", self.uniq)))
                    }
                },
                _ => match self.rng.below(5) {
                    0 => {
                        let v = self.ann_string();
                        add(&mut m, "title", v)
                    }
                    1 => {
                        let v = self.ann_string();
                        add(&mut m, "description", v)
                    }
                    2 => add(&mut m, "required", AnnVal::Bool(self.rng.chance(2, 3))),
                    3 => {
                        let v = self.examples_val();
                        add(&mut m, "examples", v)
                    }
                    _ => add(&mut m, "x-custom", AnnVal::Map(vec![("k".into(), AnnVal::Int(1))])),
                },
            }
        }
        m
    }

    /// Possibly wraps `e` with terminal annotations (respecting the flow rule).
    fn maybe_annotate(&mut self, e: E, ty: &Ty, pct: u32) -> E {
        if !self.cfg.annotations || !self.rng.chance(pct, 100) || self.flows_into_shared(&e) {
            return e;
        }
        if matches!(ty, Ty::Fun(..)) {
            return e;
        }
        let a = self.gen_ann(&e, ty);
        match self.rng.below(3) {
            0 => E::Ann {
                pre: vec![a],
                e: Box::new(e),
                post: None,
            },
            1 => {
                let b = self.gen_ann(&e, ty);
                E::Ann {
                    pre: vec![a],
                    e: Box::new(e),
                    post: Some(b),
                }
            }
            _ => E::Ann {
                pre: vec![],
                e: Box::new(e),
                post: Some(a),
            },
        }
    }

    // ------------------------------------------------------------------ expressions

    fn prop_name(&mut self, used: &mut Vec<String>) -> String {
        for _ in 0..20 {
            let n = (*self.rng.pick(&PROP_NAMES)).to_owned();
            if !used.contains(&n) {
                used.push(n.clone());
                return n;
            }
        }
        self.uniq += 1;
        let n = format!("p{}", self.uniq);
        used.push(n.clone());
        n
    }

    /// Object items: property expressions with distinct names.
    fn gen_props(&mut self, depth: usize, sc: &Scope, max: usize, inner: Option<&Ty>) -> Vec<E> {
        let n = self.rng.below(max + 1);
        let mut used = Vec::new();
        let mut out = Vec::new();
        for _ in 0..n {
            let ity = match inner {
                Some(t) => t.clone(),
                None => self.pick_schema_ty(),
            };
            // Mostly literal properties (names under the generator's control); sometimes a variable or
            // application of kind Prop whose name is then checked by the post-filter.
            let e = if self.rng.chance(85, 100) {
                self.gen_prop_literal(&ity, depth, sc, &mut used)
            } else {
                self.gen(&Ty::Prop(Box::new(ity)), depth.saturating_sub(1), sc)
            };
            out.push(e);
        }
        out
    }

    fn gen_prop_literal(&mut self, inner: &Ty, depth: usize, sc: &Scope, used: &mut Vec<String>) -> E {
        let name = self.prop_name(used);
        let mark = match self.rng.below(4) {
            0 => Some(true),
            1 => Some(false),
            _ => None,
        };
        let rhs = self.gen(inner, depth.saturating_sub(1), sc);
        let p = E::Prop {
            name,
            mark,
            rhs: Box::new(rhs),
        };
        if self.rng.chance(1, 8) {
            E::Unary {
                e: Box::new(p),
                required: self.rng.chance(1, 2),
            }
        } else {
            p
        }
    }

    fn gen_uri_literal(&mut self, depth: usize, sc: &Scope) -> E {
        let n = self.rng.range(1, 3);
        let mut segs = Vec::new();
        let mut used = Vec::new();
        for i in 0..n {
            if self.rng.chance(1, 4) && depth > 0 {
                let p = self.gen_prop_literal(&Ty::Prim, 1, sc, &mut used);
                // A URI variable must be a plain property literal of a primitive.
                let p = match p {
                    E::Unary { e, .. } => *e,
                    p => p,
                };
                segs.push(Seg::Var(Box::new(p)));
            } else if self.rng.chance(1, 12) && (i + 1 == n) {
                segs.push(Seg::Lit(String::new()));
            } else {
                segs.push(Seg::Lit((*self.rng.pick(&SEGS)).to_owned()));
            }
        }
        let params = if self.rng.chance(1, 5) && depth > 0 {
            Some(self.gen_props(1, sc, 2, Some(&Ty::Prim)))
        } else {
            None
        };
        E::UriT { segs, params }
    }

    fn gen_content_literal(&mut self, depth: usize, sc: &Scope) -> E {
        let mut metas = Vec::new();
        let mut kinds = vec![MetaK::Status, MetaK::Media, MetaK::Headers];
        self.rng.shuffle(&mut kinds);
        for k in kinds {
            if !self.rng.chance(2, 5) {
                continue;
            }
            let v = match k {
                MetaK::Status => {
                    if self.rng.chance(1, 5) {
                        // a status range through a variable, or a number through one (a declaration, a parameter, a
                        // parenthesised literal): what is checked where the literal stands must hold where it arrives
                        if self.rng.chance(1, 2) {
                            self.gen(&Ty::Num, 0, sc)
                        } else {
                            self.gen(&Ty::Status, 0, sc)
                        }
                    } else if self.rng.chance(1, 3) {
                        E::LitStatus(self.rng.range(1, 5) as u8)
                    } else {
                        if self.cfg.invalid_status && self.rng.chance(1, 40) {
                            E::LitNum(*self.rng.pick(&[0u64, 99, 600, 999, 65535, 65536, 4294967296, u64::MAX]))
                        } else {
                            E::LitNum(*self.rng.pick(&[200u64, 201, 204, 301, 400, 404, 418, 500, 599, 100]))
                        }
                    }
                }
                MetaK::Media => {
                    if self.rng.chance(1, 4) {
                        self.gen(&Ty::Text, 0, sc)
                    } else {
                        E::LitStr((*self.rng.pick(&MEDIA)).to_owned())
                    }
                }
                MetaK::Headers if self.rng.chance(1, 4) && !self.header_object_vars(sc).is_empty() => {
                    // headers through a variable bound to a literal object
                    let cands = self.header_object_vars(sc);
                    self.rng.pick(&cands).clone()
                }
                MetaK::Headers => {
                    let n = self.rng.range(0, 2);
                    let mut used = Vec::new();
                    let mut ps = Vec::new();
                    for _ in 0..n {
                        let mut name = (*self.rng.pick(&HEADER_NAMES)).to_owned();
                        while used.contains(&name) {
                            self.uniq += 1;
                            name = format!("X-H{}", self.uniq);
                        }
                        used.push(name.clone());
                        let rhs = self.gen(&Ty::Prim, 0, sc);
                        let p = E::Prop {
                            name,
                            mark: if self.rng.chance(1, 3) { Some(true) } else { None },
                            rhs: Box::new(rhs),
                        };
                        let p = self.maybe_annotate(p, &Ty::Prop(Box::new(Ty::Prim)), 25);
                        ps.push(p);
                    }
                    E::Obj(ps)
                }
            };
            metas.push((k, v));
        }
        let body = if self.rng.chance(4, 5) {
            let t = self.pick_schema_ty();
            Some(Box::new(self.gen(&t, depth.saturating_sub(1), sc)))
        } else {
            None
        };
        E::Content { metas, body }
    }

    /// Variables of kind object whose declaration is a literal object of header-like properties.
    fn header_object_vars(&self, sc: &Scope) -> Vec<E> {
        self.var_candidates(&Ty::Obj, sc)
            .into_iter()
            .filter(|v| match v {
                E::Var {
                    target: Target::Decl(d),
                    ..
                } => match &self.rhs[*d] {
                    Some(r) => matches!(r.peel(), E::Obj(ps) if ps.iter().all(|p| matches!(p.peel(), E::Prop { rhs, .. } if matches!(rhs.peel(), E::Prim(_))))),
                    None => false,
                },
                _ => false,
            })
            .collect()
    }

    fn gen_content_like(&mut self, depth: usize, sc: &Scope) -> E {
        if self.rng.chance(3, 5) {
            self.gen(&Ty::Content, depth, sc)
        } else {
            let t = self.pick_schema_ty();
            self.gen(&t, depth, sc)
        }
    }

    fn gen_xfer_literal(&mut self, depth: usize, sc: &Scope) -> E {
        let mut methods: Vec<usize> = Vec::new();
        for _ in 0..self.rng.range(1, 2) {
            let m = self.rng.below(7);
            if !methods.contains(&m) {
                methods.push(m);
            }
        }
        let params = if self.rng.chance(1, 4) {
            Some(self.gen_props(1, sc, 2, Some(&Ty::Prim)))
        } else {
            None
        };
        let domain = if self.rng.chance(1, 3) {
            Some(Box::new(self.gen_content_like(depth.saturating_sub(1), sc)))
        } else {
            None
        };
        let range = if self.rng.chance(1, 3) {
            self.gen(&Ty::Ranges, depth.saturating_sub(1), sc)
        } else {
            self.gen_content_like(depth.saturating_sub(1), sc)
        };
        E::Xfer {
            methods,
            params,
            domain,
            range: Box::new(range),
        }
    }

    fn gen_rel_literal(&mut self, depth: usize, sc: &Scope) -> E {
        let uri = self.gen(&Ty::Uri, depth.saturating_sub(1), sc);
        let n = self.rng.range(1, 2);
        let mut xfers = Vec::new();
        for _ in 0..n {
            xfers.push(self.gen(&Ty::Xfer, depth.saturating_sub(1), sc));
        }
        E::Rel {
            uri: Box::new(uri),
            xfers,
        }
    }

    fn leaf(&mut self, ty: &Ty, sc: &Scope) -> E {
        match ty {
            Ty::Text => E::LitStr((*self.rng.pick(&MEDIA)).to_owned()),
            Ty::Num => {
                if self.cfg.invalid_status && self.rng.chance(1, 12) {
                    E::LitNum(*self.rng.pick(&[42u64, 799, 1000, 65536]))
                } else {
                    E::LitNum(*self.rng.pick(&[200u64, 404, 500]))
                }
            }
            Ty::Status => E::LitStatus(self.rng.range(1, 5) as u8),
            Ty::Prim => E::Prim(*self.rng.pick(&[PrimK::Num, PrimK::Str, PrimK::Bool, PrimK::Int, PrimK::Uri])),
            Ty::Uri => E::UriT {
                segs: vec![Seg::Lit((*self.rng.pick(&SEGS)).to_owned())],
                params: None,
            },
            Ty::Rel => E::Rel {
                uri: Box::new(self.leaf(&Ty::Uri, sc)),
                xfers: vec![self.leaf(&Ty::Xfer, sc)],
            },
            Ty::Obj => E::Obj(vec![]),
            Ty::Arr => E::Arr(Box::new(self.leaf(&Ty::Prim, sc))),
            Ty::Any => E::Op {
                op: OpK::Any,
                args: vec![self.leaf(&Ty::Prim, sc), E::Obj(vec![])],
            },
            Ty::Prop(inner) => {
                let mut used = Vec::new();
                E::Prop {
                    name: self.prop_name(&mut used),
                    mark: None,
                    rhs: Box::new(self.leaf(inner, sc)),
                }
            }
            Ty::Content => E::Content {
                metas: vec![],
                body: if self.rng.chance(1, 2) { Some(Box::new(E::Obj(vec![]))) } else { None },
            },
            Ty::Ranges => E::Op {
                op: OpK::Range,
                args: vec![
                    E::Content {
                        metas: vec![(MetaK::Status, E::LitNum(200))],
                        body: Some(Box::new(E::Obj(vec![]))),
                    },
                    E::Content {
                        metas: vec![(MetaK::Status, E::LitStatus(4))],
                        body: None,
                    },
                ],
            },
            Ty::Xfer => E::Xfer {
                methods: vec![self.rng.below(7)],
                params: None,
                domain: None,
                range: Box::new(E::Content {
                    metas: vec![],
                    body: None,
                }),
            },
            Ty::Fun(..) => {
                // Only reachable through candidates; the caller checks availability.
                E::Obj(vec![])
            }
        }
    }

    /// Is a value of this kind constructible without candidates?
    fn constructible(&self, ty: &Ty, sc: &Scope) -> bool {
        match ty {
            Ty::Fun(..) => !self.var_candidates(ty, sc).is_empty(),
            Ty::Prop(i) => self.constructible(i, sc),
            _ => true,
        }
    }

    /// Generates an expression of kind `ty`. `head_ctor`: the result must be headed by a schema constructor.
    fn gen_head(&mut self, ty: &Ty, depth: usize, sc: &Scope, head_ctor: bool) -> E {
        // Variables and applications
        if !head_ctor {
            let vars = self.var_candidates(ty, sc);
            let funs = if depth > 0 { self.fun_candidates(ty, sc) } else { Vec::new() };
            let want_var = if depth == 0 { 70 } else { 30 };
            if !vars.is_empty() && self.rng.chance(want_var, 100) {
                // Prefer back edges to cut points with probability rec_bias.
                let back: Vec<&E> = vars
                    .iter()
                    .filter(|v| matches!(v, E::Var { target: Target::Decl(d), .. } if !self.generated[*d]))
                    .collect();
                let v = if !back.is_empty() && self.rng.chance(self.cfg.rec_bias.max(30), 100) {
                    (*self.rng.pick(&back)).clone()
                } else {
                    self.rng.pick(&vars).clone()
                };
                let pct = if matches!(ty, Ty::Fun(..)) { 0 } else { 15 };
                return self.maybe_annotate(v, ty, pct);
            }
            if !funs.is_empty() && self.rng.chance(35, 100) {
                let (f, ptys) = self.rng.pick(&funs).clone();
                if ptys.iter().all(|t| self.constructible(t, sc)) {
                    let mut args = Vec::new();
                    for t in &ptys {
                        // Inside a function, passing the caller's own parameters on (in any order) is what
                        // exposes a callee scope that is visible while arguments are evaluated.
                        let own: Vec<E> = self
                            .var_candidates(t, sc)
                            .into_iter()
                            .filter(|v| matches!(v, E::Var { target: Target::Param(..), .. } | E::Var { target: Target::Rec(_), .. }))
                            .collect();
                        let a = if !own.is_empty() && self.rng.chance(3, 5) {
                            self.rng.pick(&own).clone()
                        } else {
                            self.gen(t, depth.saturating_sub(1).min(2), sc)
                        };
                        args.push(a);
                    }
                    return E::App {
                        f: Box::new(f),
                        args,
                    };
                }
            }
            if let Ty::Fun(..) = ty {
                // must be a candidate
                if let Some(v) = vars.first() {
                    return v.clone();
                }
            }
        }
        if depth == 0 {
            let l = self.leaf(ty, sc);
            return self.maybe_annotate(l, ty, 20);
        }
        let d1 = depth - 1;
        let e = match ty {
            Ty::Text | Ty::Num | Ty::Status => self.leaf(ty, sc),
            Ty::Prim => {
                if self.rng.chance(1, 5) {
                    let n = self.rng.range(2, 3);
                    let mut args = Vec::new();
                    args.push(self.leaf(&Ty::Prim, sc));
                    for _ in 1..n {
                        args.push(self.gen(&Ty::Prim, d1, sc));
                    }
                    E::Op { op: OpK::Sum, args }
                } else {
                    let l = self.leaf(ty, sc);
                    if head_ctor {
                        return l;
                    }
                    l
                }
            }
            Ty::Uri => {
                let concat_shadowed = sc.params.iter().any(|(n, _, _)| n == "concat") || sc.recs.iter().any(|(n, _, _)| n == "concat");
                if !head_ctor && !concat_shadowed && self.rng.chance(1, 6) {
                    let a = self.gen(&Ty::Uri, d1, sc);
                    let b = self.gen(&Ty::Uri, d1, sc);
                    E::App {
                        f: Box::new(E::var("concat", Target::Builtin("concat".into()))),
                        args: vec![a, b],
                    }
                    .clone()
                } else {
                    self.gen_uri_literal(depth, sc)
                }
            }
            Ty::Rel => {
                if !head_ctor && self.rng.chance(1, 6) {
                    // recursive relation
                    self.gen_rec(ty, depth, sc)
                } else {
                    self.gen_rel_literal(depth, sc)
                }
            }
            Ty::Obj => match self.rng.below(100) {
                0..=59 => E::Obj(self.gen_props(depth, sc, 3, None)),
                60..=74 => {
                    let n = self.rng.range(2, 3);
                    let mut args = Vec::new();
                    for _ in 0..n {
                        args.push(self.gen(&Ty::Obj, d1, sc));
                    }
                    E::Op { op: OpK::Join, args }
                }
                75..=84 => {
                    let mut args = vec![E::Obj(self.gen_props(d1, sc, 2, None))];
                    for _ in 0..self.rng.range(1, 2) {
                        args.push(self.gen(&Ty::Obj, d1, sc));
                    }
                    E::Op { op: OpK::Sum, args }
                }
                _ => {
                    if head_ctor {
                        E::Obj(self.gen_props(depth, sc, 3, None))
                    } else {
                        self.gen_rec(ty, depth, sc)
                    }
                }
            },
            Ty::Arr => {
                if self.rng.chance(1, 8) {
                    let first = {
                        let t = self.pick_schema_ty();
                        E::Arr(Box::new(self.gen(&t, d1, sc)))
                    };
                    let second = self.gen(&Ty::Arr, d1, sc);
                    E::Op {
                        op: OpK::Sum,
                        args: vec![first, second],
                    }
                } else if !head_ctor && self.rng.chance(1, 10) {
                    self.gen_rec(ty, depth, sc)
                } else {
                    let t = self.pick_schema_ty();
                    E::Arr(Box::new(self.gen(&t, d1, sc)))
                }
            }
            Ty::Any => {
                let n = self.rng.range(2, 3);
                let mut args = Vec::new();
                for _ in 0..n {
                    let t = self.pick_schema_ty();
                    args.push(self.gen(&t, d1, sc));
                }
                E::Op { op: OpK::Any, args }
            }
            Ty::Prop(inner) => {
                let mut used = Vec::new();
                self.gen_prop_literal(inner, depth, sc, &mut used)
            }
            Ty::Content => self.gen_content_literal(depth, sc),
            Ty::Ranges => {
                let n = self.rng.range(2, 3);
                let mut args = Vec::new();
                for i in 0..n {
                    if i > 0 && self.rng.chance(1, 6) {
                        args.push(self.gen(&Ty::Ranges, d1, sc));
                    } else {
                        args.push(self.gen_content_like(d1, sc));
                    }
                }
                E::Op { op: OpK::Range, args }
            }
            Ty::Xfer => self.gen_xfer_literal(depth, sc),
            Ty::Fun(..) => self.leaf(ty, sc),
        };
        let e = if self.rng.chance(1, 12) { E::Paren(Box::new(e)) } else { e };
        self.maybe_annotate(e, ty, 18)
    }

    fn gen_rec(&mut self, ty: &Ty, depth: usize, sc: &Scope) -> E {
        let id = self.n_recs;
        self.n_recs += 1;
        let binder = if self.cfg.shadowing && self.rng.chance(1, 3) {
            // shadow something that is visible here: a declaration of the module, a parameter or an enclosing rec
            // (uses of the same name before and after the `rec`, in the same statement, denote the outer binder)
            let mut names: Vec<String> = self
                .plans
                .iter()
                .filter(|p| p.module == sc.module && !p.name.starts_with('@'))
                .map(|p| p.name.clone())
                .collect();
            names.extend(sc.params.iter().map(|(n, _, _)| n.clone()));
            names.extend(sc.recs.iter().map(|(n, _, _)| n.clone()));
            if names.is_empty() {
                "x".to_owned()
            } else {
                self.rng.pick(&names).clone()
            }
        } else if self.cfg.shadowing {
            (*self.rng.pick(&["x", "node", "a", "r", "v", "item", "concat"])).to_owned()
        } else {
            format!("r{id}")
        };
        let mut sc2 = sc.clone();
        sc2.recs.push((binder.clone(), ty.clone(), id));
        // The body is a cut point: headed by a constructor of the kind.
        let body = self.gen_head(ty, depth.saturating_sub(1).max(1), &sc2, true);
        let r = E::Rec {
            binder,
            id,
            body: Box::new(body),
        };
        // an annotation on the `rec` term itself is a definition-site annotation: it belongs to the component and to
        // nothing that consumes the reference (unlike use-site annotations on references, which the generator avoids)
        if self.cfg.annotations && self.rng.chance(1, 4) {
            let a = self.gen_ann(&r, ty);
            if self.rng.chance(1, 2) {
                E::Ann {
                    pre: vec![a],
                    e: Box::new(r),
                    post: None,
                }
            } else {
                E::Ann {
                    pre: vec![],
                    e: Box::new(r),
                    post: Some(a),
                }
            }
        } else {
            r
        }
    }

    pub fn gen(&mut self, ty: &Ty, depth: usize, sc: &Scope) -> E {
        self.gen_head(ty, depth, sc, false)
    }

    // ------------------------------------------------------------------ program

    pub fn program(mut self) -> Program {
        self.plan();
        let n = self.plans.len();
        for d in 0..n {
            let p = self.plans[d].clone();
            let sc = Scope {
                module: p.module,
                decl: Some(d),
                params: p.params.iter().enumerate().map(|(i, (n, t))| (n.clone(), t.clone(), i)).collect(),
                recs: Vec::new(),
                in_res: false,
            };
            let depth = self.rng.range(1, self.cfg.depth);
            let rhs = self.gen_head(&p.ty, depth, &sc, p.cut_ok);
            self.rhs[d] = Some(rhs);
            self.generated[d] = true;
            // declaration-level annotations
            if self.cfg.annotations && self.rng.chance(25, 100) {
                let r = self.rhs[d].clone().unwrap();
                if !self.flows_into_shared(&r) && !(p.params.is_empty() && matches!(p.ty, Ty::Fun(..))) {
                    let a = self.gen_ann(&r, &p.ty);
                    self.anns[d].push(a);
                    if self.rng.chance(1, 4) {
                        let b = self.gen_ann(&r, &p.ty);
                        self.anns[d].push(b);
                    }
                }
            }
        }
        // Resources in the main module.
        let nres = self.rng.range(1, self.cfg.max_res);
        let sc = Scope {
            module: 0,
            decl: None,
            params: Vec::new(),
            recs: Vec::new(),
            in_res: true,
        };
        for _ in 0..nres {
            let depth = self.rng.range(1, self.cfg.depth);
            let e = if self.rng.chance(1, 8) {
                self.gen(&Ty::Uri, depth, &sc)
            } else {
                self.gen(&Ty::Rel, depth, &sc)
            };
            self.res_exprs.push(e);
        }
        // Assemble.
        let m = self.files.len();
        let mut modules: Vec<Module> = Vec::new();
        for mi in 0..m {
            let mut stmts = Vec::new();
            for (t, q, path) in &self.imports[mi] {
                stmts.push(Stmt::Use {
                    path: path.clone(),
                    target: *t,
                    qual: q.clone(),
                });
            }
            let mut body: Vec<Stmt> = Vec::new();
            for (d, p) in self.plans.iter().enumerate() {
                if p.module == mi {
                    body.push(Stmt::Let { id: d });
                }
            }
            if mi == 0 {
                for e in self.res_exprs.drain(..) {
                    body.push(Stmt::Res { e });
                }
            }
            // Declarations may be used before they are defined: shuffle declarations and resources.
            self.rng.shuffle(&mut body);
            stmts.extend(body);
            // `use` statements may stand anywhere at top level (imports are declared first regardless):
            // in some modules they are moved down, keeping their relative order.
            if self.rng.chance(3, 10) {
                let uses: Vec<Stmt> = stmts.iter().filter(|s| matches!(s, Stmt::Use { .. })).cloned().collect();
                let mut rest: Vec<Stmt> = stmts.iter().filter(|s| !matches!(s, Stmt::Use { .. })).cloned().collect();
                let mut at = 0;
                for u in uses {
                    at = self.rng.range(at, rest.len());
                    rest.insert(at, u);
                    at += 1;
                }
                stmts = rest;
            }
            modules.push(Module {
                file: self.files[mi].clone(),
                stmts,
            });
        }
        let decls: Vec<Decl> = self
            .plans
            .iter()
            .enumerate()
            .map(|(d, p)| Decl {
                module: p.module,
                name: p.name.clone(),
                params: p.params.iter().map(|(n, _)| n.clone()).collect(),
                anns: self.anns[d].clone(),
                rhs: self.rhs[d].clone().unwrap(),
                ty: if p.params.is_empty() {
                    p.ty.clone()
                } else {
                    Ty::Fun(p.params.iter().map(|(_, t)| t.clone()).collect(), Box::new(p.ty.clone()))
                },
            })
            .collect();
        Program {
            modules,
            decls,
            n_recs: self.n_recs,
        }
    }
}

pub fn generate(rng: &mut Rng, cfg: &Cfg) -> Program {
    let mut p = Gen::new(rng, cfg.clone()).program();
    if cfg.twin_pct > 0 && p.modules.len() > 1 && rng.chance(cfg.twin_pct, 100) {
        super::twin::add_twin(&mut p, rng);
    }
    if cfg.shadow_pct > 0 && p.modules.len() > 1 && rng.chance(cfg.shadow_pct, 100) {
        super::twin::add_shadow_import(&mut p, rng);
    }
    p
}
