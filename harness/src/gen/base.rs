//! G-base: generator of base OpenAPI documents over the object model. `gen_base` is closed w.r.t. what survives
//! the merge (nothing outside paths / components.schemas refers to a schema component); `gen_base_open` also makes
//! bases whose carried-over components refer to schemas of the base (which the merge drops: the references dangle in
//! the output, as the base's author asked for) and bases whose mandatory strings are empty.

use crate::util::Rng;
use serde_json::{json, Map, Value};

// plain words, YAML look-alikes, and strings whose last character (of the string, or of a line) is a blank that is
// not ASCII: NO-BREAK SPACE, EM SPACE, IDEOGRAPHIC SPACE — they are part of the string
const WORDS: [&str; 16] = [
    "Example", "yes", "1e3", "a: b", "~", "été €", "- x", "null", "Pet store", "0x1F", "ends with a no-break space\u{a0}", "em space\u{2003}",
    "ideographic\u{3000}", "first line\u{a0}\nsecond line\u{3000}\nthird", " leading and trailing ", "tab\t",
];

fn word(rng: &mut Rng) -> Value {
    json!(*rng.pick(&WORDS))
}

fn maybe(rng: &mut Rng, m: &mut Map<String, Value>, k: &str, v: impl FnOnce(&mut Rng) -> Value) {
    if rng.chance(1, 2) {
        let val = v(rng);
        m.insert(k.to_owned(), val);
    }
}

fn small_schema(rng: &mut Rng) -> Value {
    match rng.below(4) {
        0 => json!({"type": "string"}),
        1 => json!({"type": "integer", "minimum": 0}),
        2 => json!({"type": "object", "properties": {"a": {"type": "boolean"}}}),
        _ => json!({"type": "array", "items": {"type": "number"}}),
    }
}

/// `rich`: use the whole object model; otherwise a conservative subset that openapiv3 round-trips verbatim.
pub fn gen_base(rng: &mut Rng, rich: bool) -> Value {
    gen_base_with(rng, rich, false)
}

/// As `gen_base`, plus (own random stream, so that the closed part stays what `gen_base` makes of the same seed):
/// schemas of carried-over parameters, responses, headers and request bodies that are references to schema components
/// of the base, defined there or not; empty `openapi`, `info.title`, `info.version` strings.
pub fn gen_base_open(rng: &mut Rng, rich: bool) -> Value {
    gen_base_with(rng, rich, true)
}

fn gen_base_with(rng: &mut Rng, rich: bool, open: bool) -> Value {
    let mut v = gen_closed(rng, rich);
    if !open {
        return v;
    }
    let mut r2 = Rng::new(rng.next() ^ 0x0be9);
    let rng = &mut r2;
    const NAMES: [&str; 5] = ["Old", "r", "obj", "hash-00ff", "Gone"];
    for ptr in [
        "/components/parameters/limit/schema",
        "/components/responses/NotFound/content/text~1plain/schema",
        "/components/headers/X-Rate/schema",
        "/components/headers/ETag/schema",
        "/components/requestBodies/Body/content/application~1json/schema",
    ] {
        if let Some(slot) = v.pointer_mut(ptr) {
            if rng.chance(1, 2) {
                *slot = json!({"$ref": format!("#/components/schemas/{}", rng.pick(&NAMES))});
            }
        }
    }
    for ptr in ["/openapi", "/info/title", "/info/version"] {
        if rng.chance(1, 8) {
            if let Some(slot) = v.pointer_mut(ptr) {
                *slot = json!("");
            }
        }
    }
    v
}

fn gen_closed(rng: &mut Rng, rich: bool) -> Value {
    let mut top = Map::new();
    top.insert("openapi".into(), json!(*rng.pick(&["3.0.3", "3.0.1", "3.0.0"])));
    let mut info = Map::new();
    info.insert("title".into(), word(rng));
    info.insert("version".into(), json!(*rng.pick(&["1.0.0", "0.1", "2024-01-01"])));
    maybe(rng, &mut info, "description", word);
    maybe(rng, &mut info, "termsOfService", |_| json!("https://example.com/tos"));
    maybe(rng, &mut info, "contact", |r| {
        let mut c = Map::new();
        maybe(r, &mut c, "name", word);
        maybe(r, &mut c, "url", |_| json!("https://example.com"));
        maybe(r, &mut c, "email", |_| json!("a@example.com"));
        Value::Object(c)
    });
    maybe(rng, &mut info, "license", |r| {
        let mut c = Map::new();
        c.insert("name".into(), json!("Apache 2.0"));
        maybe(r, &mut c, "url", |_| json!("https://www.apache.org/licenses/LICENSE-2.0.html"));
        Value::Object(c)
    });
    if rich && rng.chance(1, 3) {
        info.insert("x-logo".into(), json!({"url": "https://example.com/logo.png"}));
    }
    if rng.chance(1, 3) {
        // `<<` is an ordinary key in free-form data (YAML 1.2 has no merge keys)
        info.insert("x-merge-like".into(), json!({"<<": {"inner": 1, "other": "x"}, "kept": true, "list": [{"<<": {"a": 1}}, {"b": 2}]}));
    }
    top.insert("info".into(), Value::Object(info));
    if rng.chance(3, 4) {
        let n = rng.range(1, 2);
        let mut servers = Vec::new();
        for i in 0..n {
            let mut s = Map::new();
            s.insert("url".into(), json!(format!("https://{{env}}.example.com/v{i}")));
            maybe(rng, &mut s, "description", word);
            if rng.chance(1, 2) {
                s.insert(
                    "variables".into(),
                    json!({"env": {"default": "prod", "enum": ["prod", "test"], "description": "environment"}}),
                );
            }
            servers.push(Value::Object(s));
        }
        top.insert("servers".into(), Value::Array(servers));
    }
    if rng.chance(1, 2) {
        top.insert("security".into(), json!([{"default": []}]));
    }
    if rng.chance(1, 2) {
        let mut tags = Vec::new();
        for i in 0..rng.range(1, 3) {
            let mut t = Map::new();
            t.insert("name".into(), json!(format!("tag{i}")));
            maybe(rng, &mut t, "description", word);
            if rich && rng.chance(1, 3) {
                t.insert("externalDocs".into(), json!({"url": "https://example.com/docs"}));
            }
            tags.push(Value::Object(t));
        }
        top.insert("tags".into(), Value::Array(tags));
    }
    if rng.chance(1, 3) {
        top.insert("externalDocs".into(), json!({"url": "https://example.com/docs", "description": "more"}));
    }
    if rich && rng.chance(1, 3) {
        top.insert("x-top".into(), json!({"k": [1, 2, {"z": null}]}));
    }
    // components
    if rng.chance(4, 5) {
        let mut comps = Map::new();
        if rng.chance(2, 3) {
            let mut ss = Map::new();
            ss.insert("default".into(), json!({"type": "http", "scheme": "bearer"}));
            if rng.chance(1, 2) {
                ss.insert("key".into(), json!({"type": "apiKey", "name": "X-Key", "in": "header"}));
            }
            if rich && rng.chance(1, 3) {
                ss.insert(
                    "oauth".into(),
                    json!({"type": "oauth2", "flows": {"implicit": {"authorizationUrl": "https://example.com/auth", "scopes": {"read": "read things"}}}}),
                );
            }
            comps.insert("securitySchemes".into(), Value::Object(ss));
        }
        if rng.chance(1, 2) {
            comps.insert(
                "parameters".into(),
                json!({"limit": {"in": "query", "name": "limit", "schema": small_schema(rng), "style": "form"}}),
            );
        }
        if rng.chance(1, 2) {
            comps.insert(
                "responses".into(),
                json!({"NotFound": {"description": "not found", "content": {"text/plain": {"schema": small_schema(rng)}}}}),
            );
        }
        if rich && rng.chance(1, 2) {
            // header components, some named like headers that programs declare (a name in the base never replaces
            // what the program says about its own responses)
            let mut hs = Map::new();
            hs.insert("X-Rate".into(), json!({"style": "simple", "schema": small_schema(rng)}));
            for n in ["ETag", "X-Id", "If-Match", "x-n", "Accept-Language"] {
                if rng.chance(1, 2) {
                    hs.insert(n.into(), json!({"description": "from the base", "schema": small_schema(rng)}));
                }
            }
            comps.insert("headers".into(), Value::Object(hs));
        }
        if rich && rng.chance(1, 2) {
            comps.insert("examples".into(), json!({"ex": {"summary": "an example", "value": {"a": 1}}}));
        }
        if rich && rng.chance(1, 2) {
            comps.insert(
                "requestBodies".into(),
                json!({"Body": {"content": {"application/json": {"schema": small_schema(rng)}}, "required": true}}),
            );
        }
        if rich && rng.chance(1, 3) {
            comps.insert("links".into(), json!({"next": {"operationId": "get-root", "description": "next page"}}));
        }
        // pre-existing schemas, some named like the program's components
        if rng.chance(2, 3) {
            let mut sc = Map::new();
            for n in ["Old", "r", "obj", "hash-00ff"] {
                if rng.chance(1, 2) {
                    sc.insert(n.to_owned(), small_schema(rng));
                }
            }
            comps.insert("schemas".into(), Value::Object(sc));
        }
        top.insert("components".into(), Value::Object(comps));
    }
    // pre-existing paths
    if rng.chance(2, 3) {
        let mut paths = Map::new();
        for p in ["/old", "/", "/a", "/items/{id}"] {
            if rng.chance(1, 3) {
                paths.insert(
                    p.to_owned(),
                    json!({"get": {"responses": {"200": {"description": "ok"}}, "operationId": format!("old{}", p.len())}}),
                );
            }
        }
        // extensions directly under `paths` belong to the paths object, which comes entirely from the program
        if rng.chance(1, 3) {
            paths.insert("x-gateway-routes".to_owned(), json!({"legacy": true}));
        }
        if rng.chance(1, 4) {
            paths.insert("x-generated-by".to_owned(), json!("gateway 1.0"));
        }
        top.insert("paths".into(), Value::Object(paths));
    } else {
        top.insert("paths".into(), json!({}));
    }
    Value::Object(top)
}
