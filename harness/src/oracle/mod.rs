pub mod canon;
pub mod tree;
pub mod validate;
pub mod syntax;
