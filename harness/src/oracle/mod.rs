pub mod canon;
