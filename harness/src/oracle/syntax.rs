//! Invariant walkers over tokenizer and parser outputs (C11) and the cached/uncached differential (C12).

use oal_compiler::tree::Core;
use oal_model::grammar::{Context, ParserMatch, SyntaxTrunk};
use oal_model::lexicon::{Interner, Lexeme};
use oal_model::locator::Locator;
use oal_syntax::lexer::{tokenize, TokenKind, TokenValue};
use oal_syntax::parser::{parse_program, Gram};

pub fn loc() -> Locator {
    Locator::try_from("file:///ws/main.oal").unwrap()
}

#[derive(Debug)]
pub struct Tok {
    pub kind: TokenKind,
    pub start: usize,
    pub end: usize,
    pub trivia: bool,
}

/// Checks the tokenizer's output on `t`. Returns (tokens, lexical error spans, problems).
pub fn check_tokens(t: &str) -> (Vec<Tok>, Vec<(usize, usize)>, Vec<String>) {
    let mut problems = Vec::new();
    let (list, errs) = tokenize(loc(), t);
    let errs: Vec<(usize, usize)> = errs.iter().map(|e| (e.span().start(), e.span().end())).collect();
    let mut toks = Vec::new();
    let Some(list) = list else {
        return (toks, errs, vec!["no token list".into()]);
    };
    let mut c = list.head();
    let mut prev_end = 0usize;
    while c.is_valid() {
        let (tok, span) = list.token_span(c);
        let (s, e) = (span.start(), span.end());
        if s >= e {
            problems.push(format!("empty or inverted token span {s}..{e}"));
        }
        if s < prev_end {
            problems.push(format!("token span {s}..{e} overlaps or precedes the previous token ending at {prev_end}"));
        }
        if e > t.len() || !t.is_char_boundary(s.min(t.len())) || !t.is_char_boundary(e.min(t.len())) {
            problems.push(format!("token span {s}..{e} outside the text or off a char boundary"));
            c = list.advance(c);
            continue;
        }
        let slice = &t[s..e];
        // value vs slice
        let kind = tok.kind();
        let want: Option<String> = match kind {
            TokenKind::IdentifierValue
            | TokenKind::IdentifierReference
            | TokenKind::Space
            | TokenKind::CommentLine
            | TokenKind::CommentBlock => Some(slice.to_owned()),
            TokenKind::LiteralString | TokenKind::AnnotationInline => {
                if slice.len() >= 2 {
                    Some(slice[1..slice.len() - 1].to_owned())
                } else {
                    None
                }
            }
            TokenKind::AnnotationLine | TokenKind::Property | TokenKind::PathElementSegment => {
                slice.chars().next().map(|c| slice[c.len_utf8()..].to_owned())
            }
            _ => None,
        };
        match tok.value() {
            TokenValue::Symbol(sym) => {
                let got = list.resolve(*sym);
                if want.as_deref() != Some(got) {
                    problems.push(format!("token {kind:?} at {s}..{e} has value {got:?}, its slice denotes {want:?}"));
                }
            }
            TokenValue::Number(n) => {
                if kind != TokenKind::LiteralNumber || slice.parse::<u64>().ok() != Some(*n) {
                    problems.push(format!("number token at {s}..{e} has value {n}, slice {slice:?}"));
                }
            }
            TokenValue::HttpStatus(st) => {
                let class = slice.as_bytes()[0] - b'0';
                let ok = kind == TokenKind::LiteralHttpStatus
                    && matches!(
                        (class, st),
                        (1, oal_syntax::atom::HttpStatus::Range(oal_syntax::atom::HttpStatusRange::Info))
                            | (2, oal_syntax::atom::HttpStatus::Range(oal_syntax::atom::HttpStatusRange::Success))
                            | (3, oal_syntax::atom::HttpStatus::Range(oal_syntax::atom::HttpStatusRange::Redirect))
                            | (4, oal_syntax::atom::HttpStatus::Range(oal_syntax::atom::HttpStatusRange::ClientError))
                            | (5, oal_syntax::atom::HttpStatus::Range(oal_syntax::atom::HttpStatusRange::ServerError))
                    );
                if !ok {
                    problems.push(format!("status token at {s}..{e} has value {st:?}, slice {slice:?}"));
                }
            }
            TokenValue::None => {
                if want.is_some() {
                    problems.push(format!("token {kind:?} at {s}..{e} carries no value"));
                }
            }
        }
        // the slice lexed on its own is exactly one token of the same kind
        let (l2, e2) = tokenize(loc(), slice);
        let single = l2.as_ref().is_some_and(|l| l.len() == 1 && l.kind(l.head()) == kind) && e2.is_empty();
        if !single {
            problems.push(format!("slice {slice:?} of token {kind:?} does not lex as one token of that kind"));
        }
        toks.push(Tok {
            kind,
            start: s,
            end: e,
            trivia: kind.is_trivia(),
        });
        prev_end = prev_end.max(e);
        c = list.advance(c);
    }
    // coverage: every byte is in a token or in a lexical error span; error spans do not overlap tokens
    let mut covered = vec![0u8; t.len()];
    for k in &toks {
        for b in covered[k.start..k.end].iter_mut() {
            *b |= 1;
        }
    }
    for (s, e) in &errs {
        if *s > *e || *e > t.len() || !t.is_char_boundary(*s) || !t.is_char_boundary(*e) {
            problems.push(format!("lexical error span {s}..{e} outside the text or off a char boundary"));
            continue;
        }
        for b in covered[*s..*e].iter_mut() {
            if *b & 1 != 0 {
                problems.push(format!("lexical error span {s}..{e} overlaps a token"));
                break;
            }
            *b |= 2;
        }
    }
    if let Some(i) = covered.iter().position(|b| *b == 0) {
        problems.push(format!("byte {i} is in no token and in no lexical error span"));
    }
    problems.truncate(5);
    (toks, errs, problems)
}

/// Checks the tree returned by oal_syntax::parse: leaves = non-trivia tokens of the parsed prefix, each
/// once, in order; node span = hull of its leaves; error spans inside the text.
pub fn check_tree(t: &str, toks: &[Tok]) -> (Vec<String>, bool) {
    let mut problems = Vec::new();
    let (tree, errs) = oal_syntax::parse::<_, Core>(loc(), t);
    let mut stop: Option<usize> = None;
    for e in &errs {
        let sp = match e {
            oal_syntax::errors::Error::Grammar(g) => Some((g.span(), g.to_string())),
            oal_syntax::errors::Error::Lexicon(l) => Some((l.span(), String::new())),
            _ => None,
        };
        if let Some((sp, msg)) = sp {
            let (s, e2) = (sp.start(), sp.end());
            let ok = s <= e2
                && e2 <= t.len() + 1
                && t.is_char_boundary(s.min(t.len()))
                && t.is_char_boundary(e2.min(t.len()));
            if !ok {
                problems.push(format!("syntax error span {s}..{e2} outside the text (len {}) or off a char boundary", t.len()));
            }
            if msg.contains("cannot parse remaining input") {
                stop = Some(s);
            }
        }
    }
    let Some(tree) = tree else {
        if errs.is_empty() {
            problems.push("neither a tree nor an error".into());
        }
        return (problems, false);
    };
    let want: Vec<(usize, usize)> = toks
        .iter()
        .filter(|k| !k.trivia && stop.map_or(true, |s| k.start < s))
        .map(|k| (k.start, k.end))
        .collect();
    let mut got: Vec<(usize, usize)> = Vec::new();
    let mut count = 0usize;
    for n in tree.root().descendants() {
        count += 1;
        if let SyntaxTrunk::Leaf(_) = n.syntax().trunk() {
            let sp = n.token().span();
            got.push((sp.start(), sp.end()));
        }
    }
    if got != want {
        let i = got.iter().zip(want.iter()).position(|(a, b)| a != b).unwrap_or(got.len().min(want.len()));
        problems.push(format!(
            "tree leaves differ from the non-trivia tokens of the parsed prefix at position {i}: {} leaves vs {} tokens (leaf {:?}, token {:?})",
            got.len(),
            want.len(),
            got.get(i),
            want.get(i)
        ));
    }
    // node spans = hull of descendant leaves, computed independently (post-order accumulation)
    let mut checked = 0;
    for n in tree.root().descendants() {
        let mut lo = usize::MAX;
        let mut hi = 0usize;
        let mut any = false;
        for d in n.descendants() {
            if let SyntaxTrunk::Leaf(_) = d.syntax().trunk() {
                let sp = d.token().span();
                lo = lo.min(sp.start());
                hi = hi.max(sp.end());
                any = true;
            }
        }
        let got = n.span().map(|s| (s.start(), s.end()));
        let want = if any { Some((lo, hi)) } else { None };
        if got != want {
            problems.push(format!("node span {got:?} is not the hull {want:?} of its leaves"));
            break;
        }
        checked += 1;
        if checked > 400 {
            break; // quadratic walk: bound the work per text
        }
    }
    let _ = count;
    problems.truncate(5);
    (problems, true)
}

#[derive(Debug, Clone, PartialEq)]
pub struct ParseDump {
    pub ok: bool,
    pub stop_valid: bool,
    pub stop_span: (usize, usize),
    pub err: String,
    pub tree: String,
    pub reads: usize,
    pub hits: usize,
    pub cache: usize,
    pub tokens: usize,
    pub non_trivia: usize,
    /// nodes allocated in the syntax arena (work that the read counter does not see)
    pub arena: usize,
}

/// Parses `t` with or without the memo table and dumps the result structurally.
/// Returns None if the parse was cut off by the read limit (a panic raised by the hook).
pub fn parse_dump_limited(t: &str, cached: bool, limit: usize) -> Option<ParseDump> {
    crate::util::guard(|| parse_dump_inner(t, cached, limit)).ok()
}

pub fn parse_dump(t: &str, cached: bool) -> ParseDump {
    parse_dump_inner(t, cached, usize::MAX)
}

fn parse_dump_inner(t: &str, cached: bool, limit: usize) -> ParseDump {
    let (list, _) = tokenize(loc(), t);
    let list = list.unwrap();
    let tokens = list.len();
    let mut non_trivia = 0;
    let mut c = list.head();
    while c.is_valid() {
        if !<oal_syntax::lexer::Token as Lexeme>::is_trivia(list.kind(c)) {
            non_trivia += 1;
        }
        c = list.advance(c);
    }
    let mut ctx: Context<Core, Gram> = Context::new(list);
    if !cached {
        ctx = ctx.without_cache();
    }
    ctx.verif_set_read_limit(limit);
    let head = ctx.head();
    let r = parse_program(&mut ctx, head);
    let (reads, hits, cache) = ctx.verif_counters();
    let arena = ctx.count();
    match r {
        Ok((s, root)) => {
            let stop_valid = s.is_valid();
            let sp = ctx.span(s);
            let tree = match root {
                ParserMatch::Node(n) => {
                    let tree = ctx.tree().finalize(n);
                    let mut out = String::new();
                    for cur in tree.root().traverse() {
                        match cur {
                            oal_model::grammar::NodeCursor::Start(n) => match n.syntax().trunk() {
                                SyntaxTrunk::Leaf(tk) => {
                                    let sp = n.token().span();
                                    out.push_str(&format!("[{:?}@{}..{}", tk.kind(), sp.start(), sp.end()));
                                }
                                SyntaxTrunk::Tree(k) => out.push_str(&format!("[{k:?}")),
                                SyntaxTrunk::Error => out.push_str("[Error"),
                            },
                            oal_model::grammar::NodeCursor::End(_) => out.push(']'),
                        }
                    }
                    out
                }
                other => format!("{other:?}"),
            };
            ParseDump {
                ok: true,
                stop_valid,
                stop_span: (sp.start(), sp.end()),
                err: String::new(),
                tree,
                reads,
                hits,
                cache,
                tokens,
                non_trivia,
                arena,
            }
        }
        Err(e) => ParseDump {
            ok: false,
            stop_valid: false,
            stop_span: (e.span().start(), e.span().end()),
            err: e.to_string(),
            tree: String::new(),
            reads,
            hits,
            cache,
            tokens,
            non_trivia,
            arena,
        },
    }
}

/// Number of non-trivia tokens of a text.
pub fn count_non_trivia(t: &str) -> usize {
    let (list, _) = tokenize(loc(), t);
    let Some(list) = list else { return 0 };
    let mut n = 0;
    let mut c = list.head();
    while c.is_valid() {
        if !<oal_syntax::lexer::Token as Lexeme>::is_trivia(list.kind(c)) {
            n += 1;
        }
        c = list.advance(c);
    }
    n
}

/// Maximum bracket nesting depth of a text (cheap proxy for the cost of the uncached parser).
pub fn nesting_depth(t: &str) -> usize {
    let mut d = 0usize;
    let mut m = 0usize;
    for c in t.chars() {
        match c {
            '(' | '[' | '{' | '<' => {
                d += 1;
                m = m.max(d);
            }
            ')' | ']' | '}' | '>' => d = d.saturating_sub(1),
            _ => {}
        }
    }
    m
}
