//! Independent structural validator of emitted OpenAPI documents (C03), over the re-parsed YAML value.

use serde_json::Value;
use std::collections::BTreeMap;

#[derive(Debug, Clone)]
pub struct Problem {
    pub class: &'static str,
    pub detail: String,
}

fn walk_refs<'a>(v: &'a Value, out: &mut Vec<&'a str>) {
    match v {
        Value::Object(m) => {
            for (k, x) in m {
                if k == "$ref" {
                    if let Some(s) = x.as_str() {
                        out.push(s);
                    }
                } else {
                    walk_refs(x, out);
                }
            }
        }
        Value::Array(a) => a.iter().for_each(|x| walk_refs(x, out)),
        _ => {}
    }
}

fn path_vars(key: &str) -> Vec<String> {
    let mut out = Vec::new();
    let mut rest = key;
    while let Some(i) = rest.find('{') {
        if let Some(j) = rest[i..].find('}') {
            out.push(rest[i + 1..i + j].to_owned());
            rest = &rest[i + j + 1..];
        } else {
            break;
        }
    }
    out
}

const METHODS: [&str; 8] = ["get", "put", "post", "patch", "delete", "options", "head", "trace"];

fn seg_label(seg: &str) -> String {
    if seg.is_empty() {
        "root".to_owned()
    } else if seg.starts_with('{') && seg.ends_with('}') {
        seg[1..seg.len() - 1].to_lowercase()
    } else {
        seg.to_lowercase()
    }
}

/// The operationId the tool synthesises for (method, path) when the program gives none.
pub fn synthesised_id(method: &str, path: &str) -> String {
    let mut parts = vec![method.to_owned()];
    for seg in path.split('/').skip(1) {
        parts.push(seg_label(seg));
    }
    parts.join("-")
}

pub fn validate(doc: &Value) -> Vec<Problem> {
    let mut out = Vec::new();
    // (i) $ref closure
    let mut refs = Vec::new();
    walk_refs(doc, &mut refs);
    for r in refs {
        let ok = r
            .strip_prefix("#/")
            .map(|p| {
                let ptr = format!("/{p}");
                doc.pointer(&ptr).is_some()
            })
            .unwrap_or(false);
        if !ok {
            out.push(Problem {
                class: "dangling-ref",
                detail: r.to_owned(),
            });
        } else if !r.starts_with("#/components/") {
            out.push(Problem {
                class: "ref-not-to-component",
                detail: r.to_owned(),
            });
        }
    }
    // (ii) path variables vs path parameters, (iii) response keys, (iv) operationIds
    let mut ids: BTreeMap<String, Vec<(String, String)>> = BTreeMap::new();
    if let Some(paths) = doc.get("paths").and_then(Value::as_object) {
        for (key, item) in paths {
            let vars = path_vars(key);
            let mut sorted = vars.clone();
            sorted.sort();
            let mut dedup = sorted.clone();
            dedup.dedup();
            let distinct_vars = dedup.len() == sorted.len();
            let params: Vec<&Value> = item
                .get("parameters")
                .and_then(Value::as_array)
                .map(|a| a.iter().collect())
                .unwrap_or_default();
            let mut pnames: Vec<String> = Vec::new();
            for p in &params {
                if p.get("in").and_then(Value::as_str) == Some("path") {
                    let name = p.get("name").and_then(Value::as_str).unwrap_or("").to_owned();
                    if p.get("required") != Some(&Value::Bool(true)) {
                        out.push(Problem {
                            class: "path-parameter-not-required",
                            detail: format!("{key}: {name}"),
                        });
                    }
                    pnames.push(name);
                }
            }
            // Programs with repeated variable names inside one path are outside the property's quantifier.
            if distinct_vars {
                let mut ps = pnames.clone();
                ps.sort();
                if ps != sorted {
                    out.push(Problem {
                        class: "path-variables-and-parameters-differ",
                        detail: format!("{key}: variables {vars:?}, path parameters {pnames:?}"),
                    });
                }
            }
            if let Some(m) = item.as_object() {
                for (method, op) in m {
                    if !METHODS.contains(&method.as_str()) {
                        continue;
                    }
                    if let Some(rs) = op.get("responses").and_then(Value::as_object) {
                        for rk in rs.keys() {
                            let ok = rk == "default"
                                || (rk.len() == 3
                                    && rk.as_bytes()[0].is_ascii_digit()
                                    && (b'1'..=b'5').contains(&rk.as_bytes()[0])
                                    && (&rk[1..] == "XX" || rk[1..].bytes().all(|b| b.is_ascii_digit())));
                            if !ok {
                                out.push(Problem {
                                    class: "invalid-response-key",
                                    detail: format!("{key} {method}: {rk}"),
                                });
                            }
                        }
                    }
                    if let Some(id) = op.get("operationId").and_then(Value::as_str) {
                        ids.entry(id.to_owned()).or_default().push((method.clone(), key.clone()));
                    }
                }
            }
        }
    }
    for (id, uses) in ids {
        if uses.len() > 1 {
            let synthesised = uses.iter().filter(|(m, p)| synthesised_id(m, p) == id).count();
            if synthesised == uses.len() {
                out.push(Problem {
                    class: "duplicate-synthesised-operationId",
                    detail: format!("{id}: {uses:?}"),
                });
            } else if synthesised > 0 {
                out.push(Problem {
                    class: "synthesised-operationId-equals-explicit-one",
                    detail: format!("{id}: {uses:?}"),
                });
            }
            // all explicit: the program asked for the duplicate
        }
    }
    out
}
