//! Canonical form of an OpenAPI document "up to the generated names of implicit components".
//! Implicit components (`hash-*`) are identified up to bisimilarity, unreachable ones dropped, the rest
//! renamed #0, #1, … in a deterministic traversal order. Numbers are compared by value.

use serde_json::{json, Map, Value};
use std::collections::BTreeMap;

const PREFIX: &str = "#/components/schemas/";

fn norm_num(n: &serde_json::Number) -> Value {
    if let Some(i) = n.as_i64() {
        json!(i)
    } else if let Some(u) = n.as_u64() {
        json!(u)
    } else if let Some(f) = n.as_f64() {
        if f.fract() == 0.0 && f.abs() < 9.0e15 {
            json!(f as i64)
        } else {
            json!(f)
        }
    } else {
        Value::Number(n.clone())
    }
}

/// Sorts keys, normalises numbers and rewrites `$ref`s through `rename`.
fn rewrite(v: &Value, rename: &dyn Fn(&str) -> String) -> Value {
    match v {
        Value::Object(m) => {
            let mut keys: Vec<&String> = m.keys().collect();
            keys.sort();
            let mut out = Map::new();
            for k in keys {
                let val = &m[k];
                if k == "$ref" {
                    if let Some(s) = val.as_str() {
                        if let Some(name) = s.strip_prefix(PREFIX) {
                            out.insert(k.clone(), json!(format!("{PREFIX}{}", rename(name))));
                            continue;
                        }
                    }
                }
                out.insert(k.clone(), rewrite(val, rename));
            }
            Value::Object(out)
        }
        Value::Array(a) => Value::Array(a.iter().map(|x| rewrite(x, rename)).collect()),
        Value::Number(n) => norm_num(n),
        other => other.clone(),
    }
}

fn collect_refs(v: &Value, out: &mut Vec<String>) {
    match v {
        Value::Object(m) => {
            let mut keys: Vec<&String> = m.keys().collect();
            keys.sort();
            for k in keys {
                let val = &m[k];
                if k == "$ref" {
                    if let Some(name) = val.as_str().and_then(|s| s.strip_prefix(PREFIX)) {
                        out.push(name.to_owned());
                        continue;
                    }
                }
                collect_refs(val, out);
            }
        }
        Value::Array(a) => a.iter().for_each(|x| collect_refs(x, out)),
        _ => {}
    }
}

pub fn is_implicit(name: &str) -> bool {
    name.starts_with("hash-")
}

/// Canonicalises a document.
pub fn canon(doc: &Value) -> Value {
    let empty = Map::new();
    let schemas = doc
        .pointer("/components/schemas")
        .and_then(Value::as_object)
        .unwrap_or(&empty);
    let implicit: Vec<&String> = schemas.keys().filter(|k| is_implicit(k)).collect();

    // Partition refinement over implicit components.
    let mut class: BTreeMap<String, usize> = implicit.iter().map(|k| ((*k).clone(), 0usize)).collect();
    loop {
        let mut sigs: BTreeMap<String, Vec<String>> = BTreeMap::new();
        for k in &implicit {
            let body = rewrite(&schemas[*k], &|n: &str| match class.get(n) {
                Some(c) => format!("~{c}"),
                None => n.to_owned(),
            });
            sigs.entry(body.to_string()).or_default().push((*k).clone());
        }
        let mut next = BTreeMap::new();
        for (i, (_, members)) in sigs.iter().enumerate() {
            for m in members {
                next.insert(m.clone(), i);
            }
        }
        let n_old = class.values().collect::<std::collections::BTreeSet<_>>().len();
        let n_new = next.values().collect::<std::collections::BTreeSet<_>>().len();
        class = next;
        if n_new == n_old {
            break;
        }
    }
    // Representative per class: the smallest name (only used internally).
    let mut rep: BTreeMap<usize, String> = BTreeMap::new();
    for (k, c) in &class {
        rep.entry(*c).or_insert_with(|| k.clone());
    }

    // Deterministic numbering by traversal from paths and explicit components.
    let mut order: Vec<usize> = Vec::new();
    let mut queue: Vec<Value> = Vec::new();
    if let Some(p) = doc.get("paths") {
        queue.push(p.clone());
    }
    let mut explicit: Vec<&String> = schemas.keys().filter(|k| !is_implicit(k)).collect();
    explicit.sort();
    for k in &explicit {
        queue.push(schemas[*k].clone());
    }
    let mut qi = 0;
    while qi < queue.len() {
        let mut refs = Vec::new();
        collect_refs(&queue[qi], &mut refs);
        qi += 1;
        for r in refs {
            if let Some(c) = class.get(&r) {
                if !order.contains(c) {
                    order.push(*c);
                    queue.push(schemas[&rep[c]].clone());
                }
            }
        }
    }
    let number = |name: &str| -> String {
        match class.get(name) {
            Some(c) => match order.iter().position(|x| x == c) {
                Some(i) => format!("#{i}"),
                None => format!("#unreachable-{c}"),
            },
            None => name.to_owned(),
        }
    };

    // Rebuild the document.
    let mut out = Map::new();
    if let Value::Object(top) = doc {
        for (k, v) in top {
            if k == "components" {
                let mut comps = Map::new();
                if let Value::Object(cm) = v {
                    for (ck, cv) in cm {
                        if ck == "schemas" {
                            let mut sm = Map::new();
                            for e in &explicit {
                                sm.insert((*e).clone(), rewrite(&schemas[*e], &number));
                            }
                            for (i, c) in order.iter().enumerate() {
                                sm.insert(format!("#{i}"), rewrite(&schemas[&rep[c]], &number));
                            }
                            if !sm.is_empty() {
                                comps.insert(ck.clone(), Value::Object(sm));
                            }
                        } else {
                            comps.insert(ck.clone(), rewrite(cv, &number));
                        }
                    }
                }
                out.insert(k.clone(), Value::Object(comps));
            } else {
                out.insert(k.clone(), rewrite(v, &number));
            }
        }
    }
    rewrite(&Value::Object(out), &|n: &str| n.to_owned())
}

/// First difference between two canonical values, as (json-pointer, left, right).
pub fn first_diff(a: &Value, b: &Value) -> Option<(String, Value, Value)> {
    fn go(a: &Value, b: &Value, path: &mut String) -> Option<(String, Value, Value)> {
        match (a, b) {
            (Value::Object(x), Value::Object(y)) => {
                let mut keys: Vec<&String> = x.keys().chain(y.keys()).collect();
                keys.sort();
                keys.dedup();
                for k in keys {
                    let l = path.len();
                    path.push('/');
                    path.push_str(&k.replace('~', "~0").replace('/', "~1"));
                    let r = match (x.get(k), y.get(k)) {
                        (Some(p), Some(q)) => go(p, q, path),
                        (p, q) => Some((
                            path.clone(),
                            p.cloned().unwrap_or(json!("<absent>")),
                            q.cloned().unwrap_or(json!("<absent>")),
                        )),
                    };
                    if r.is_some() {
                        return r;
                    }
                    path.truncate(l);
                }
                None
            }
            (Value::Array(x), Value::Array(y)) => {
                if x.len() != y.len() {
                    return Some((path.clone(), a.clone(), b.clone()));
                }
                for (i, (p, q)) in x.iter().zip(y.iter()).enumerate() {
                    let l = path.len();
                    path.push_str(&format!("/{i}"));
                    let r = go(p, q, path);
                    if r.is_some() {
                        return r;
                    }
                    path.truncate(l);
                }
                None
            }
            _ => {
                if a == b {
                    None
                } else {
                    Some((path.clone(), a.clone(), b.clone()))
                }
            }
        }
    }
    go(a, b, &mut String::new())
}

/// A short, stable class of a difference for signatures: the pointer with indices and names abstracted.
pub fn diff_class(ptr: &str) -> String {
    let mut out = Vec::new();
    let parts: Vec<&str> = ptr.split('/').collect();
    let mut i = 0;
    while i < parts.len() {
        let p = parts[i];
        if p.is_empty() {
            i += 1;
            continue;
        }
        let keep = matches!(
            p,
            "paths" | "components" | "schemas" | "parameters" | "responses" | "requestBody" | "content" | "schema"
                | "headers" | "properties" | "items" | "allOf" | "anyOf" | "oneOf" | "required" | "description"
                | "title" | "summary" | "tags" | "operationId" | "examples" | "example" | "type" | "format"
                | "pattern" | "enum" | "minimum" | "maximum" | "multipleOf" | "minLength" | "maxLength" | "in"
                | "name" | "style" | "$ref" | "get" | "put" | "post" | "patch" | "delete" | "options" | "head"
                | "info" | "servers" | "openapi" | "externalValue"
        );
        out.push(if keep { p } else { "*" });
        i += 1;
    }
    out.join("/")
}
