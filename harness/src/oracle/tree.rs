//! Walkers over the implementation's syntax trees (public API only).

use oal_compiler::definition::Definition;
use oal_compiler::module::ModuleSet;
use oal_compiler::tree::{Core, Tree};
use oal_model::grammar::AbstractSyntaxNode;
use oal_syntax::parser as syn;

#[derive(Clone, Debug, PartialEq)]
pub enum DefInfo {
    Internal,
    External {
        module: String,
        range: (usize, usize),
        is_declaration: bool,
        is_binding: bool,
    },
    Missing,
}

#[derive(Clone, Debug)]
pub struct VarInfo {
    pub module: String,
    /// range of the (unqualified) identifier token
    pub ident: (usize, usize),
    /// range of the whole variable node (qualifier, dot, identifier)
    pub var: (usize, usize),
    pub def: DefInfo,
}

pub fn variables_of(tree: &Tree, mods: &ModuleSet) -> Vec<VarInfo> {
    let mut out = Vec::new();
    let module = tree.locator().url().to_string();
    for node in tree.root().descendants() {
        if let Some(var) = syn::Variable::<Core>::cast(node) {
            let ident = var.identifier().node().span().map(|s| (s.start(), s.end())).unwrap_or((0, 0));
            let vr = node.span().map(|s| (s.start(), s.end())).unwrap_or((0, 0));
            let core = node.syntax().core_ref();
            let def = match core.definition() {
                None => DefInfo::Missing,
                Some(Definition::Internal(_)) => DefInfo::Internal,
                Some(Definition::External(ext)) => {
                    let n = ext.node(mods);
                    let sp = n.span();
                    DefInfo::External {
                        module: n.tree().locator().url().to_string(),
                        range: sp.map(|s| (s.start(), s.end())).unwrap_or((0, 0)),
                        is_declaration: syn::Declaration::<Core>::cast(n).is_some(),
                        is_binding: syn::Binding::<Core>::cast(n).is_some(),
                    }
                }
            };
            out.push(VarInfo {
                module: module.clone(),
                ident,
                var: vr,
                def,
            });
        }
    }
    out
}

pub fn variables(mods: &ModuleSet) -> Vec<VarInfo> {
    let mut out = Vec::new();
    let mut locs: Vec<_> = mods.locators().cloned().collect();
    locs.sort();
    for l in locs {
        out.extend(variables_of(mods.get(&l).unwrap(), mods));
    }
    out
}
