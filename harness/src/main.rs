//! oalv: runtime-monitoring harness for oxlip-lang/oal (see /verif/DESIGN.md).

mod checks;
mod pool;
mod util;

use std::path::PathBuf;

fn usage() -> ! {
    eprintln!("usage: oalv check <Cxx> <quick|thorough> | oalv worker <workload> <tier> <seed> | oalv replay <path>");
    std::process::exit(2)
}

fn main() {
    let args: Vec<String> = std::env::args().collect();
    if args.len() < 2 {
        usage();
    }
    util::install_panic_hook();
    match args[1].as_str() {
        "check" => {
            if args.len() < 4 {
                usage();
            }
            let seed = std::env::var("VERIF_SEED")
                .ok()
                .and_then(|s| s.trim().parse::<i64>().ok())
                .map(|s| s as u64)
                .unwrap_or(1);
            let scratch = std::env::var("OALV_SCRATCH")
                .map(PathBuf::from)
                .unwrap_or_else(|_| std::env::temp_dir().join(format!("oalv-{}", std::process::id())));
            let _ = std::fs::create_dir_all(&scratch);
            let scratch = scratch.canonicalize().unwrap_or(scratch);
            let ctx = checks::Ctx {
                id: args[2].clone(),
                tier: args[3].clone(),
                seed,
                scratch: scratch.clone(),
            };
            let code = checks::run_check(&ctx);
            if std::env::var("OALV_KEEP_SCRATCH").is_err() {
                let _ = std::fs::remove_dir_all(&scratch);
            }
            std::process::exit(code);
        }
        "worker" => {
            if args.len() < 5 {
                usage();
            }
            let seed: u64 = args[4].parse().unwrap_or(1);
            let Some(wl) = checks::workload(&args[2], &args[3]) else {
                eprintln!("unknown workload {}", args[2]);
                std::process::exit(2);
            };
            // Cases run on a thread with the stack size of a process main thread (8 MiB), like the CLI.
            let h = std::thread::Builder::new()
                .stack_size(8 * 1024 * 1024)
                .spawn(move || pool::worker_main(wl.as_ref(), seed))
                .unwrap();
            let _ = h.join();
        }
        "replay" => {
            if args.len() < 3 {
                usage();
            }
            let code = checks::replay(std::path::Path::new(&args[2]));
            std::process::exit(code);
        }
        _ => usage(),
    }
}
