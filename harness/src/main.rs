//! oalv: runtime-monitoring harness for oxlip-lang/oal (see /verif/DESIGN.md).

mod checks;
mod drive;
mod gen;
mod oracle;
mod pool;
mod reference;
mod util;

use std::path::PathBuf;

fn usage() -> ! {
    eprintln!("usage: oalv check <Cxx> <quick|thorough> | oalv worker <workload> <tier> <seed> | oalv replay <path>");
    std::process::exit(2)
}

fn main() {
    let args: Vec<String> = std::env::args().collect();
    if args.len() < 2 {
        usage();
    }
    util::install_panic_hook();
    match args[1].as_str() {
        "check" => {
            if args.len() < 4 {
                usage();
            }
            let seed = std::env::var("VERIF_SEED")
                .ok()
                .and_then(|s| s.trim().parse::<i64>().ok())
                .map(|s| s as u64)
                .unwrap_or(1);
            let scratch = std::env::var("OALV_SCRATCH")
                .map(PathBuf::from)
                .unwrap_or_else(|_| std::env::temp_dir().join(format!("oalv-{}", std::process::id())));
            let _ = std::fs::create_dir_all(&scratch);
            let scratch = scratch.canonicalize().unwrap_or(scratch);
            let ctx = checks::Ctx {
                id: args[2].clone(),
                tier: args[3].clone(),
                seed,
                scratch: scratch.clone(),
            };
            let code = checks::run_check(&ctx);
            if std::env::var("OALV_KEEP_SCRATCH").is_err() {
                let _ = std::fs::remove_dir_all(&scratch);
            }
            std::process::exit(code);
        }
        "worker" => {
            if args.len() < 5 {
                usage();
            }
            let seed: u64 = args[4].parse().unwrap_or(1);
            let Some(wl) = checks::workload(&args[2], &args[3]) else {
                eprintln!("unknown workload {}", args[2]);
                std::process::exit(2);
            };
            // Cases run on a thread with the stack size of a process main thread (8 MiB), like the CLI.
            let h = std::thread::Builder::new()
                .stack_size(8 * 1024 * 1024)
                .spawn(move || pool::worker_main(wl.as_ref(), seed))
                .unwrap();
            let _ = h.join();
        }
        "direct" => {
            // oalv direct <workload> <tier> <seed> <lo> <hi>: run cases in this process (used under Miri)
            if args.len() < 7 {
                usage();
            }
            let Some(wl) = checks::workload(&args[2], &args[3]) else {
                eprintln!("unknown workload {}", args[2]);
                std::process::exit(2);
            };
            let seed: u64 = args[4].parse().unwrap_or(1);
            let lo: u64 = args[5].parse().unwrap_or(0);
            let hi: u64 = args[6].parse().unwrap_or(0);
            let mut st = util::Stats::new();
            for idx in lo..hi.min(wl.len()) {
                for v in wl.run(seed, idx, &mut st) {
                    println!("V {idx} {} {}", v.kind.replace(' ', "_"), v.detail);
                }
            }
            println!("DONE {}", st.to_json());
        }
        "debug-wt" => {
            // oalv debug-wt <seed> <from> <to>: print generated programs whose reference is undefined or that are rejected
            let seed: u64 = args[2].parse().unwrap();
            let from: u64 = args[3].parse().unwrap();
            let to: u64 = args[4].parse().unwrap();
            let what = args.get(5).map(|s| s.as_str()).unwrap_or("all");
            for idx in from..to {
                let mut rng = util::Rng::for_case(seed, "c02", idx);
                let prog = gen::wt::generate(&mut rng, &checks::c02::wt_cfg());
                let printed = gen::print::print_program(&prog);
                let src = checks::common::sources_of(&printed);
                let exp = reference::eval::expected(&prog);
                let out = drive::pipeline::run(&src, None);
                let show = match what {
                    "undefined" => matches!(exp, Err(reference::eval::RefErr::Undefined(_))),
                    "rejected" => matches!(out, drive::pipeline::Outcome::Rejected(_)),
                    _ => true,
                };
                if show {
                    println!("=== idx {idx}");
                    for (f, t) in &src.files {
                        println!("--- {f}\n{t}");
                    }
                    match &exp {
                        Ok(reference::eval::Expected::Doc { flags, .. }) => println!("reference: doc flags={flags:?}"),
                        Ok(e) => println!("reference: {e:?}"),
                        Err(e) => println!("reference: ERR {e:?}"),
                    }
                    match &out {
                        drive::pipeline::Outcome::Doc { .. } => println!("impl: doc"),
                        o => println!("impl: {o:?}"),
                    }
                }
            }
        }
        "debug-recshadow" => {
            // oalv debug-recshadow <seed> <from> <to>: print C18 cases with a rec binder named like an earlier use
            let seed: u64 = args[2].parse().unwrap();
            let from: u64 = args[3].parse().unwrap();
            let to: u64 = args[4].parse().unwrap();
            for idx in from..to {
                let mut st = util::Stats::new();
                if let Some(c) = checks::common::gen_wt_case(seed, "c18", idx, &checks::c18::cfg(), &mut st) {
                    if st.to_json().to_string().contains("like_a_parameter_used_before\":1") {
                        println!("=== idx {idx}");
                        for (f, t) in &c.sources.files {
                            println!("--- {f}\n{t}");
                        }
                    }
                }
            }
        }
        "replay" => {
            if args.len() < 3 {
                usage();
            }
            let code = checks::replay(std::path::Path::new(&args[2]));
            std::process::exit(code);
        }
        _ => usage(),
    }
}
