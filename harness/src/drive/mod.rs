pub mod pipeline;
pub mod cli;
pub mod lsp;
pub mod sanitize;
