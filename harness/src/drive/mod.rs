pub mod pipeline;
