//! Sanitizer stages of the thorough tiers: Miri (in-process cases through `oalv direct`), an ASan build of
//! the real binaries, valgrind memcheck and strace wrappers for oal-cli.
//! A stage that cannot run (toolchain problem) is recorded as inconclusive for that stage; it never turns into
//! a violation.

use crate::util::{repo_root, verif_root};
use serde_json::{json, Value};
use std::path::PathBuf;
use std::process::{Command, Stdio};

fn target_dir() -> PathBuf {
    std::env::var("OALV_TARGET").map(PathBuf::from).unwrap_or_else(|_| verif_root().join("target"))
}

fn harness_manifest() -> PathBuf {
    // ./check exports the manifest it built (it differs for OALV_REPO != /repo)
    std::env::var("OALV_MANIFEST").map(PathBuf::from).unwrap_or_else(|_| verif_root().join("harness/Cargo.toml"))
}

pub struct MiriShard {
    pub lo: u64,
    pub hi: u64,
    pub stdout: String,
    pub stderr: String,
    pub code: Option<i32>,
    pub timed_out: bool,
}

#[derive(Default)]
pub struct MiriResult {
    pub cases: u64,
    /// (case range, kind, excerpt)
    pub reports: Vec<(String, String, String)>,
    pub violations: Vec<(u64, String, Value)>,
    pub tool_failure: Option<String>,
    pub wall_s: f64,
}

/// Runs cases [0, n) of a workload under Miri in `shards` parallel interpreter processes.
pub fn miri_stage(workload: &str, tier: &str, seed: u64, n: u64, shards: u64, timeout_s: u64) -> MiriResult {
    miri_stage_offset(workload, tier, seed, 0, n, n.div_ceil(shards.max(1)), timeout_s)
}

/// Runs cases [from, to) in shards of `per` cases.
pub fn miri_stage_offset(workload: &str, tier: &str, seed: u64, from: u64, to: u64, per: u64, timeout_s: u64) -> MiriResult {
    let n = to;
    let t0 = std::time::Instant::now();
    let mut res = MiriResult::default();
    let manifest = harness_manifest();
    let tdir = target_dir().join("miri");
    let base = |lo: u64, hi: u64| {
        let mut c = Command::new("cargo");
        c.arg("+nightly")
            .arg("miri")
            .arg("run")
            .arg("--offline")
            .arg("--manifest-path")
            .arg(&manifest)
            .arg("--target-dir")
            .arg(&tdir)
            .arg("--")
            .arg("direct")
            .arg(workload)
            .arg(tier)
            .arg(seed.to_string())
            .arg(lo.to_string())
            .arg(hi.to_string())
            .env("MIRIFLAGS", "-Zmiri-disable-isolation")
            .env("CARGO_NET_OFFLINE", "true")
            .env("OALV_ROOT", verif_root())
            .stdin(Stdio::null())
            .stdout(Stdio::piped())
            .stderr(Stdio::piped());
        c
    };
    // Build once (an empty range), so that the shards only interpret.
    let build = base(0, 0).output();
    match build {
        Ok(o) if o.status.success() => {}
        Ok(o) => {
            let e = String::from_utf8_lossy(&o.stderr);
            res.tool_failure = Some(format!("miri build/run failed: {}", e.lines().rev().take(8).collect::<Vec<_>>().join(" | ")));
            res.wall_s = t0.elapsed().as_secs_f64();
            return res;
        }
        Err(e) => {
            res.tool_failure = Some(format!("cannot run cargo miri: {e}"));
            return res;
        }
    }
    let per = per.max(1);
    let mut children = Vec::new();
    let mut lo = from;
    while lo < n {
        let hi = (lo + per).min(n);
        match crate::util::own_group(&mut base(lo, hi)).spawn() {
            Ok(c) => children.push((lo, hi, c)),
            Err(e) => res.tool_failure = Some(format!("cannot spawn miri shard: {e}")),
        }
        lo = hi;
    }
    for (lo, hi, mut c) in children {
        let start = std::time::Instant::now();
        let mut timed_out = false;
        loop {
            match c.try_wait() {
                Ok(Some(_)) => break,
                Ok(None) if start.elapsed().as_secs() > timeout_s => {
                    crate::util::kill_tree(&mut c);
                    timed_out = true;
                    break;
                }
                Ok(None) => std::thread::sleep(std::time::Duration::from_millis(200)),
                Err(_) => break,
            }
        }
        let Ok(o) = c.wait_with_output() else { continue };
        let stdout = String::from_utf8_lossy(&o.stdout).to_string();
        let stderr = String::from_utf8_lossy(&o.stderr).to_string();
        let done = stdout.lines().any(|l| l.starts_with("DONE "));
        for l in stdout.lines() {
            if let Some(r) = l.strip_prefix("V ") {
                let mut it = r.splitn(3, ' ');
                let idx = it.next().and_then(|x| x.parse().ok()).unwrap_or(lo);
                let kind = it.next().unwrap_or("?").to_owned();
                let detail = it.next().and_then(|j| serde_json::from_str(j).ok()).unwrap_or(Value::Null);
                res.violations.push((idx, kind, detail));
            }
        }
        if done {
            res.cases += hi - lo;
        }
        if stderr.contains("Undefined Behavior") || stderr.contains("error: unsupported operation") && !done {
            let excerpt: String = stderr
                .lines()
                .skip_while(|l| !l.contains("error:"))
                .take(14)
                .collect::<Vec<_>>()
                .join("\n");
            let kind = if stderr.contains("Undefined Behavior") { "undefined-behaviour" } else { "unsupported-operation" };
            res.reports.push((format!("{lo}..{hi}"), kind.to_owned(), excerpt));
        } else if timed_out {
            res.reports.push((format!("{lo}..{hi}"), "timeout".to_owned(), String::new()));
        } else if !done {
            let excerpt: String = stderr.lines().rev().take(10).collect::<Vec<_>>().into_iter().rev().collect::<Vec<_>>().join("\n");
            res.reports.push((format!("{lo}..{hi}"), "aborted".to_owned(), excerpt));
        }
    }
    res.wall_s = t0.elapsed().as_secs_f64();
    res
}

/// Builds oal-cli / oal-lsp with AddressSanitizer (nightly). Returns their paths.
pub fn asan_binaries() -> Result<(PathBuf, PathBuf), String> {
    let tdir = target_dir().join("asan");
    let out = Command::new("cargo")
        .arg("+nightly")
        .arg("build")
        .arg("--offline")
        .arg("--target")
        .arg("x86_64-unknown-linux-gnu")
        .arg("--manifest-path")
        .arg(repo_root().join("Cargo.toml"))
        .arg("-p")
        .arg("oal-client")
        .arg("--bins")
        .arg("--target-dir")
        .arg(&tdir)
        .env("RUSTFLAGS", "-Zsanitizer=address -Cforce-frame-pointers=yes")
        .env("CARGO_NET_OFFLINE", "true")
        .output()
        .map_err(|e| format!("cannot run cargo: {e}"))?;
    if !out.status.success() {
        let e = String::from_utf8_lossy(&out.stderr);
        return Err(format!("ASan build failed: {}", e.lines().rev().take(6).collect::<Vec<_>>().join(" | ")));
    }
    let d = tdir.join("x86_64-unknown-linux-gnu/debug");
    let (cli, lsp) = (d.join("oal-cli"), d.join("oal-lsp"));
    if cli.exists() && lsp.exists() {
        Ok((cli, lsp))
    } else {
        Err("ASan binaries not found after the build".into())
    }
}

/// Points the process-level drivers of this process (and of the workers it spawns) at other binaries.
pub struct BinaryOverride {
    old_cli: Option<String>,
    old_lsp: Option<String>,
    old_asan: Option<String>,
    old_wrapper: Option<String>,
}

impl BinaryOverride {
    pub fn asan(cli: &std::path::Path, lsp: &std::path::Path) -> Self {
        let o = BinaryOverride {
            old_cli: std::env::var("OALV_CLI").ok(),
            old_lsp: std::env::var("OALV_LSP").ok(),
            old_asan: std::env::var("ASAN_OPTIONS").ok(),
            old_wrapper: std::env::var("OALV_CLI_WRAPPER").ok(),
        };
        std::env::set_var("OALV_CLI", cli);
        std::env::set_var("OALV_LSP", lsp);
        std::env::set_var("ASAN_OPTIONS", "detect_leaks=0:abort_on_error=1:halt_on_error=1");
        o
    }
    pub fn wrapper(w: &str) -> Self {
        let o = BinaryOverride {
            old_cli: std::env::var("OALV_CLI").ok(),
            old_lsp: std::env::var("OALV_LSP").ok(),
            old_asan: std::env::var("ASAN_OPTIONS").ok(),
            old_wrapper: std::env::var("OALV_CLI_WRAPPER").ok(),
        };
        std::env::set_var("OALV_CLI_WRAPPER", w);
        o
    }
}

impl Drop for BinaryOverride {
    fn drop(&mut self) {
        let put = |k: &str, v: &Option<String>| match v {
            Some(x) => std::env::set_var(k, x),
            None => std::env::remove_var(k),
        };
        put("OALV_CLI", &self.old_cli);
        put("OALV_LSP", &self.old_lsp);
        put("ASAN_OPTIONS", &self.old_asan);
        put("OALV_CLI_WRAPPER", &self.old_wrapper);
    }
}

pub fn miri_json(r: &MiriResult) -> Value {
    json!({
        "tool": "cargo +nightly miri run (MIRIFLAGS=-Zmiri-disable-isolation)",
        "cases_interpreted": r.cases,
        "reports": r.reports.iter().map(|(a, b, _)| format!("{a}: {b}")).collect::<Vec<_>>(),
        "violations": r.violations.len(),
        "tool_failure": r.tool_failure,
        "wall_s": r.wall_s,
    })
}
