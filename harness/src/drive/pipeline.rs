//! Runs the real pipeline (load -> compile -> eval -> emit) on in-memory sources through the public API.

use crate::util::{guard, PanicInfo};
use oal_compiler::errors::{Error as CErr, Kind};
use oal_compiler::module::{Loader, ModuleSet};
use oal_compiler::tree::{Core, Tree};
use oal_model::locator::Locator;
use serde_json::Value;

pub const BASE: &str = "file:///ws/";

#[derive(Clone, Debug, PartialEq)]
pub struct Sources {
    /// (file name relative to the workspace root, text); files[0] is the main module
    pub files: Vec<(String, String)>,
}

impl Sources {
    pub fn single(text: &str) -> Sources {
        Sources {
            files: vec![("main.oal".to_owned(), text.to_owned())],
        }
    }
    pub fn to_json(&self) -> Value {
        Value::Array(
            self.files
                .iter()
                .map(|(n, t)| serde_json::json!({"file": n, "text": t}))
                .collect(),
        )
    }
    pub fn from_json(v: &Value) -> Sources {
        Sources {
            files: v
                .as_array()
                .map(|a| {
                    a.iter()
                        .map(|f| {
                            (
                                f["file"].as_str().unwrap_or("main.oal").to_owned(),
                                f["text"].as_str().unwrap_or("").to_owned(),
                            )
                        })
                        .collect()
                })
                .unwrap_or_default(),
        }
    }
    pub fn locator(name: &str) -> Locator {
        Locator::try_from(format!("{BASE}{name}").as_str()).unwrap()
    }
    pub fn text_of(&self, loc: &Locator) -> Option<&str> {
        let url = loc.url().as_str();
        self.files
            .iter()
            .find(|(n, _)| Self::locator(n).url().as_str() == url)
            .map(|(_, t)| t.as_str())
    }
}

#[derive(Debug)]
pub enum LErr {
    Compiler(CErr),
    Syntax(Locator, Vec<oal_syntax::errors::Error>),
    Missing(Locator),
}

impl From<CErr> for LErr {
    fn from(e: CErr) -> Self {
        LErr::Compiler(e)
    }
}

#[derive(Clone, Debug, PartialEq)]
pub struct Event {
    pub op: &'static str,
    pub loc: String,
}

pub struct MemLoader<'a> {
    pub src: &'a Sources,
    /// CLI-like: any syntax error rejects the module. Otherwise (LSP-like) a partial tree is accepted.
    pub strict: bool,
    pub log: Vec<Event>,
    pub syntax_errors: Vec<(Locator, Vec<oal_syntax::errors::Error>)>,
}

impl<'a> MemLoader<'a> {
    pub fn new(src: &'a Sources) -> Self {
        MemLoader {
            src,
            strict: true,
            log: Vec::new(),
            syntax_errors: Vec::new(),
        }
    }
}

impl Loader<LErr> for MemLoader<'_> {
    fn is_valid(&mut self, loc: &Locator) -> bool {
        self.log.push(Event {
            op: "is_valid",
            loc: loc.url().to_string(),
        });
        self.src.text_of(loc).is_some()
    }
    fn load(&mut self, loc: &Locator) -> Result<String, LErr> {
        self.log.push(Event {
            op: "load",
            loc: loc.url().to_string(),
        });
        self.src
            .text_of(loc)
            .map(|s| s.to_owned())
            .ok_or_else(|| LErr::Missing(loc.clone()))
    }
    fn parse(&mut self, loc: Locator, input: String) -> Result<Tree, LErr> {
        self.log.push(Event {
            op: "parse",
            loc: loc.url().to_string(),
        });
        let (tree, errs) = oal_syntax::parse::<_, Core>(loc.clone(), input);
        if self.strict {
            if !errs.is_empty() {
                return Err(LErr::Syntax(loc, errs));
            }
            tree.ok_or_else(|| LErr::Syntax(loc, Vec::new()))
        } else {
            match tree {
                Some(t) => {
                    if !errs.is_empty() {
                        self.syntax_errors.push((loc, errs));
                    }
                    Ok(t)
                }
                None => Err(LErr::Syntax(loc, errs)),
            }
        }
    }
    fn compile(&mut self, mods: &ModuleSet, loc: &Locator) -> Result<(), LErr> {
        self.log.push(Event {
            op: "compile",
            loc: loc.url().to_string(),
        });
        oal_compiler::compile::compile(mods, loc).map_err(LErr::Compiler)
    }
}

pub fn kind_name(k: &Kind) -> &'static str {
    match k {
        Kind::Locator(_) => "Locator",
        Kind::Yaml(_) => "Yaml",
        Kind::Syntax(_) => "Syntax",
        Kind::NotInScope => "NotInScope",
        Kind::InvalidType => "InvalidType",
        Kind::CycleDetected => "CycleDetected",
        Kind::InvalidLiteral => "InvalidLiteral",
        Kind::InvalidIdentifier => "InvalidIdentifier",
        Kind::InvalidModule(_) => "InvalidModule",
    }
}

#[derive(Clone, Debug, PartialEq)]
pub struct SpanInfo {
    pub loc: String,
    pub start: usize,
    pub end: usize,
}

#[derive(Clone, Debug, PartialEq)]
pub struct ErrInfo {
    pub kind: String,
    pub message: String,
    pub span: Option<SpanInfo>,
}

pub fn err_info(e: &CErr) -> ErrInfo {
    ErrInfo {
        kind: kind_name(&e.kind).to_owned(),
        message: e.to_string(),
        span: e.span().map(|s| SpanInfo {
            loc: s.locator().url().to_string(),
            start: s.start(),
            end: s.end(),
        }),
    }
}

pub fn syntax_err_info(loc: &Locator, errs: &[oal_syntax::errors::Error]) -> ErrInfo {
    let (kind, span, message) = match errs.last() {
        Some(oal_syntax::errors::Error::Grammar(g)) => ("Grammar", Some(g.span()), g.to_string()),
        Some(oal_syntax::errors::Error::Lexicon(l)) => ("Lexicon", Some(l.span()), l.to_string()),
        Some(e) => ("SyntaxOther", None, e.to_string()),
        None => ("NoTree", None, "no tree and no error".to_owned()),
    };
    ErrInfo {
        kind: kind.to_owned(),
        message,
        span: span
            .map(|s| SpanInfo {
                loc: s.locator().url().to_string(),
                start: s.start(),
                end: s.end(),
            })
            .or(Some(SpanInfo {
                loc: loc.url().to_string(),
                start: 0,
                end: 0,
            })),
    }
}

#[derive(Debug)]
pub enum Outcome {
    /// load/parse/compile said no.
    Rejected(ErrInfo),
    /// accepted, evaluation returned an error value.
    EvalError(ErrInfo),
    /// accepted and emitted.
    Doc { yaml: String, json: Value, direct: Value },
    /// a stage panicked.
    Panic { stage: &'static str, accepted: bool, info: PanicInfo },
    /// emitted YAML did not parse back (reported by C03) or serialisation failed.
    EmitError(String),
}

impl Outcome {
    pub fn class(&self) -> String {
        match self {
            Outcome::Rejected(e) => format!("rejected:{}", e.kind),
            Outcome::EvalError(e) => format!("eval-error:{}", e.kind),
            Outcome::Doc { .. } => "doc".to_owned(),
            Outcome::Panic { stage, .. } => format!("panic:{stage}"),
            Outcome::EmitError(_) => "emit-error".to_owned(),
        }
    }
    pub fn accepted(&self) -> bool {
        match self {
            Outcome::Rejected(_) => false,
            Outcome::Panic { accepted, .. } => *accepted,
            _ => true,
        }
    }
}

pub struct Loaded {
    pub mods: Option<ModuleSet>,
    pub err: Option<LErr>,
    pub log: Vec<Event>,
}

/// Loads and compiles; panics are reported to the caller as Err.
pub fn load(src: &Sources) -> Result<Loaded, PanicInfo> {
    guard(|| {
        let mut loader = MemLoader::new(src);
        let main = Sources::locator(&src.files[0].0);
        match oal_compiler::module::load(&mut loader, &main) {
            Ok(m) => Loaded {
                mods: Some(m),
                err: None,
                log: loader.log,
            },
            Err(e) => Loaded {
                mods: None,
                err: Some(e),
                log: loader.log,
            },
        }
    })
}

pub fn lerr_info(e: &LErr) -> ErrInfo {
    match e {
        LErr::Compiler(c) => err_info(c),
        LErr::Syntax(loc, errs) => syntax_err_info(loc, errs),
        LErr::Missing(loc) => ErrInfo {
            kind: "Missing".into(),
            message: format!("missing {loc}"),
            span: None,
        },
    }
}

/// Full pipeline, optionally with a base document.
pub fn run(src: &Sources, base: Option<openapiv3::OpenAPI>) -> Outcome {
    let loaded = match load(src) {
        Ok(l) => l,
        Err(info) => {
            return Outcome::Panic {
                stage: "load",
                accepted: false,
                info,
            }
        }
    };
    let Some(mods) = loaded.mods else {
        return Outcome::Rejected(lerr_info(loaded.err.as_ref().unwrap()));
    };
    let spec = match guard(|| oal_compiler::eval::eval(&mods)) {
        Ok(Ok(s)) => s,
        Ok(Err(e)) => return Outcome::EvalError(err_info(&e)),
        Err(info) => {
            return Outcome::Panic {
                stage: "eval",
                accepted: true,
                info,
            }
        }
    };
    match guard(|| {
        let mut b = oal_openapi::Builder::new(spec);
        if let Some(base) = base {
            b = b.with_base(base);
        }
        let api = b.into_openapi();
        let direct = serde_json::to_value(&api).unwrap_or(Value::Null);
        serde_yaml::to_string(&api).map(|y| (y, direct))
    }) {
        Ok(Ok((yaml, direct))) => match serde_yaml::from_str::<Value>(&yaml) {
            Ok(json) => Outcome::Doc { yaml, json, direct },
            Err(e) => Outcome::EmitError(format!("emitted YAML does not parse: {e}")),
        },
        Ok(Err(e)) => Outcome::EmitError(format!("serialisation failed: {e}")),
        Err(info) => Outcome::Panic {
            stage: "emit",
            accepted: true,
            info,
        },
    }
}
