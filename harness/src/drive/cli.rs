//! Driver for the real oal-cli binary: workspace on disk, argv/config, exit status, stderr, target file.

use super::pipeline::Sources;
use std::path::{Path, PathBuf};
use std::process::Command;

pub fn cli_path() -> PathBuf {
    std::env::var("OALV_CLI")
        .map(PathBuf::from)
        .unwrap_or_else(|_| PathBuf::from("/verif/target/repo/release/oal-cli"))
}

pub fn lsp_path() -> PathBuf {
    std::env::var("OALV_LSP")
        .map(PathBuf::from)
        .unwrap_or_else(|_| PathBuf::from("/verif/target/repo/release/oal-lsp"))
}

/// A scratch directory (canonical path) removed on drop.
pub struct TempDir {
    pub path: PathBuf,
}

impl TempDir {
    pub fn new(tag: &str) -> TempDir {
        use std::sync::atomic::{AtomicUsize, Ordering};
        static SEQ: AtomicUsize = AtomicUsize::new(0);
        let base = std::env::var("OALV_SCRATCH")
            .map(PathBuf::from)
            .unwrap_or_else(|_| std::env::temp_dir());
        let n = SEQ.fetch_add(1, Ordering::SeqCst);
        // one scratch directory in three has a blank and a non-ASCII character in its name: workspace folder URIs and
        // locators then carry percent-encoded bytes that must be decoded again to reach the files
        let fancy = if n % 3 == 1 { " sp é" } else { "" };
        let p = base.join(format!("oalv-{tag}-{}-{n}{fancy}", std::process::id()));
        let _ = std::fs::remove_dir_all(&p);
        std::fs::create_dir_all(&p).expect("cannot create scratch directory");
        let p = p.canonicalize().unwrap_or(p);
        TempDir { path: p }
    }
}

impl Drop for TempDir {
    fn drop(&mut self) {
        let _ = std::fs::remove_dir_all(&self.path);
    }
}

pub fn write_sources(dir: &Path, src: &Sources) {
    for (name, text) in &src.files {
        let p = dir.join(name);
        if let Some(parent) = p.parent() {
            let _ = std::fs::create_dir_all(parent);
        }
        std::fs::write(&p, text).expect("cannot write source file");
    }
}

#[derive(Debug, Clone)]
pub struct CliResult {
    pub code: Option<i32>,
    pub signal: Option<i32>,
    pub stderr: String,
    pub stdout: String,
    pub timed_out: bool,
}

impl CliResult {
    pub fn success(&self) -> bool {
        self.code == Some(0)
    }
}

/// Runs a command with a wall-clock watchdog (seconds). The watchdog firing is reported, never a verdict by itself.
/// stdout and stderr are drained by reader threads while waiting (a child blocked on a full pipe would
/// otherwise look like a hang).
pub fn run_with_timeout(cmd: &mut Command, timeout_s: u64) -> CliResult {
    use std::io::Read;
    use std::os::unix::process::ExitStatusExt;
    use std::process::Stdio;
    cmd.stdin(Stdio::null()).stdout(Stdio::piped()).stderr(Stdio::piped());
    let mut child = match cmd.spawn() {
        Ok(c) => c,
        Err(e) => {
            return CliResult {
                code: None,
                signal: None,
                stderr: format!("spawn failed: {e}"),
                stdout: String::new(),
                timed_out: false,
            }
        }
    };
    let mut so = child.stdout.take();
    let mut se = child.stderr.take();
    let t_out = std::thread::spawn(move || {
        let mut b = Vec::new();
        if let Some(s) = so.as_mut() {
            let _ = s.read_to_end(&mut b);
        }
        b
    });
    let t_err = std::thread::spawn(move || {
        let mut b = Vec::new();
        if let Some(s) = se.as_mut() {
            let _ = s.read_to_end(&mut b);
        }
        b
    });
    let start = std::time::Instant::now();
    let mut timed_out = false;
    let status = loop {
        match child.try_wait() {
            Ok(Some(st)) => break Some(st),
            Ok(None) => {
                if start.elapsed().as_secs() >= timeout_s {
                    let _ = child.kill();
                    timed_out = true;
                    break child.wait().ok();
                }
                std::thread::sleep(std::time::Duration::from_millis(2));
            }
            Err(_) => break None,
        }
    };
    let stdout = t_out.join().unwrap_or_default();
    let stderr = t_err.join().unwrap_or_default();
    CliResult {
        code: status.and_then(|s| s.code()),
        signal: status.and_then(|s| s.signal()),
        stderr: String::from_utf8_lossy(&stderr).to_string(),
        stdout: String::from_utf8_lossy(&stdout).to_string(),
        timed_out,
    }
}

/// The command that runs oal-cli, possibly under a wrapper (OALV_CLI_WRAPPER, e.g. valgrind or strace).
fn cli_command() -> Command {
    match std::env::var("OALV_CLI_WRAPPER") {
        Ok(w) if !w.trim().is_empty() => {
            let mut parts = w.split_whitespace();
            let mut cmd = Command::new(parts.next().unwrap());
            for p in parts {
                cmd.arg(p);
            }
            cmd.arg(cli_path());
            cmd
        }
        _ => Command::new(cli_path()),
    }
}

/// Runs oal-cli in `dir` with -m/-t(/-b) options.
pub fn run_cli(dir: &Path, main: &str, target: &str, base: Option<&str>) -> CliResult {
    let mut cmd = cli_command();
    cmd.current_dir(dir).arg("-m").arg(main).arg("-t").arg(target);
    if let Some(b) = base {
        cmd.arg("-b").arg(b);
    }
    run_with_timeout(&mut cmd, 60)
}

/// Runs oal-cli with a configuration file.
pub fn run_cli_conf(dir: &Path, conf: &str) -> CliResult {
    let mut cmd = cli_command();
    cmd.current_dir(dir).arg("--conf").arg(conf);
    run_with_timeout(&mut cmd, 60)
}

/// Runs oal-cli from working directory `cwd` with an absolute configuration path and a target relative to it.
pub fn run_cli_conf_from(cwd: &Path, conf: &Path, target: &str) -> CliResult {
    let mut cmd = cli_command();
    cmd.current_dir(cwd).arg("--conf").arg(conf).arg("-t").arg(target);
    run_with_timeout(&mut cmd, 60)
}

/// Runs oal-cli with a configuration file and additional command-line options (which take precedence).
pub fn run_cli_conf_opts(dir: &Path, conf: &str, opts: &[&str]) -> CliResult {
    let mut cmd = cli_command();
    cmd.current_dir(dir).arg("--conf").arg(conf);
    for o in opts {
        cmd.arg(o);
    }
    run_with_timeout(&mut cmd, 60)
}
