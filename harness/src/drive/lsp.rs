//! Client for the real oal-lsp binary over stdio (JSON-RPC with Content-Length framing).
//! Synchronisation is logical: a request forces a refresh and everything published for that refresh
//! precedes the response on the wire.

use super::cli::lsp_path;
use serde_json::{json, Value};
use std::collections::BTreeMap;
use std::io::{BufRead, BufReader, Read, Write};
use std::path::Path;
use std::process::{Child, ChildStdin, Command, Stdio};
use std::sync::mpsc::{channel, Receiver, RecvTimeoutError};
use std::time::Duration;

pub struct Lsp {
    child: Child,
    stdin: Option<ChildStdin>,
    rx: Receiver<Value>,
    next_id: i64,
    /// last published diagnostics per URI
    pub diags: BTreeMap<String, Vec<Value>>,
    pub messages_sent: usize,
    pub messages_received: usize,
    pub stderr_path: std::path::PathBuf,
    pub request_timeout: Duration,
}

#[derive(Debug)]
pub enum LspError {
    Died(String),
    Timeout,
    ErrorResponse(Value),
}

pub fn file_uri(p: &Path) -> String {
    lsp_types::Url::from_file_path(p).map(|u| u.to_string()).unwrap_or_default()
}

impl Lsp {
    /// Starts the server on a workspace folder (which must contain oal.toml) and performs the handshake.
    pub fn start(ws: &Path, exe: Option<&Path>) -> Result<Lsp, LspError> {
        Self::start_folders(ws, &[ws.to_owned()], exe)
    }

    /// Starts the server in `ws` with several workspace folders (each must contain oal.toml).
    pub fn start_folders(ws: &Path, folders: &[std::path::PathBuf], exe: Option<&Path>) -> Result<Lsp, LspError> {
        let stderr_path = ws.join(format!(".lsp-stderr-{}", std::process::id()));
        let errf = std::fs::File::create(&stderr_path).map_err(|e| LspError::Died(e.to_string()))?;
        let exe = exe.map(|p| p.to_owned()).unwrap_or_else(lsp_path);
        let mut child = Command::new(exe)
            .current_dir(ws)
            .stdin(Stdio::piped())
            .stdout(Stdio::piped())
            .stderr(errf)
            .spawn()
            .map_err(|e| LspError::Died(format!("spawn: {e}")))?;
        let stdin = child.stdin.take();
        let stdout = child.stdout.take().unwrap();
        let (tx, rx) = channel();
        std::thread::spawn(move || {
            let mut rd = BufReader::new(stdout);
            loop {
                let mut len: Option<usize> = None;
                loop {
                    let mut line = String::new();
                    match rd.read_line(&mut line) {
                        Ok(0) | Err(_) => return,
                        Ok(_) => {}
                    }
                    let l = line.trim_end();
                    if l.is_empty() {
                        break;
                    }
                    if let Some(v) = l.strip_prefix("Content-Length:") {
                        len = v.trim().parse().ok();
                    }
                }
                let Some(n) = len else { return };
                let mut buf = vec![0u8; n];
                if rd.read_exact(&mut buf).is_err() {
                    return;
                }
                match serde_json::from_slice::<Value>(&buf) {
                    Ok(v) => {
                        if tx.send(v).is_err() {
                            return;
                        }
                    }
                    Err(_) => return,
                }
            }
        });
        let mut lsp = Lsp {
            child,
            stdin,
            rx,
            next_id: 1,
            diags: BTreeMap::new(),
            messages_sent: 0,
            messages_received: 0,
            stderr_path,
            request_timeout: Duration::from_secs(30),
        };
        let uri = file_uri(&folders[0]);
        let wf: Vec<Value> = folders
            .iter()
            .enumerate()
            .map(|(i, f)| json!({"uri": file_uri(f), "name": format!("ws{i}")}))
            .collect();
        lsp.request(
            "initialize",
            json!({
                "processId": null,
                "rootUri": uri,
                "capabilities": {"general": {"positionEncodings": ["utf-16"]}},
                "workspaceFolders": wf,
            }),
        )?;
        lsp.notify("initialized", json!({}))?;
        Ok(lsp)
    }

    fn send(&mut self, msg: &Value) -> Result<(), LspError> {
        let body = msg.to_string();
        let frame = format!("Content-Length: {}\r\n\r\n{}", body.len(), body);
        let Some(si) = self.stdin.as_mut() else {
            return Err(LspError::Died("stdin closed".into()));
        };
        si.write_all(frame.as_bytes())
            .and_then(|_| si.flush())
            .map_err(|e| LspError::Died(format!("write: {e}")))?;
        self.messages_sent += 1;
        Ok(())
    }

    pub fn notify(&mut self, method: &str, params: Value) -> Result<(), LspError> {
        self.send(&json!({"jsonrpc": "2.0", "method": method, "params": params}))
    }

    fn absorb(&mut self, msg: &Value) {
        if msg.get("method").and_then(Value::as_str) == Some("textDocument/publishDiagnostics") {
            let uri = msg["params"]["uri"].as_str().unwrap_or("").to_owned();
            let ds = msg["params"]["diagnostics"].as_array().cloned().unwrap_or_default();
            self.diags.insert(uri, ds);
        }
    }

    /// Sends a request and waits for its response; notifications received meanwhile are absorbed.
    pub fn request(&mut self, method: &str, params: Value) -> Result<Value, LspError> {
        let id = self.next_id;
        self.next_id += 1;
        self.send(&json!({"jsonrpc": "2.0", "id": id, "method": method, "params": params}))?;
        let deadline = std::time::Instant::now() + self.request_timeout;
        loop {
            let left = deadline.saturating_duration_since(std::time::Instant::now());
            match self.rx.recv_timeout(left) {
                Ok(msg) => {
                    self.messages_received += 1;
                    if msg.get("id").and_then(Value::as_i64) == Some(id) && msg.get("method").is_none() {
                        if let Some(e) = msg.get("error") {
                            return Err(LspError::ErrorResponse(e.clone()));
                        }
                        return Ok(msg.get("result").cloned().unwrap_or(Value::Null));
                    }
                    self.absorb(&msg);
                }
                Err(RecvTimeoutError::Timeout) => return Err(LspError::Timeout),
                Err(RecvTimeoutError::Disconnected) => {
                    let st = self.child.wait().map(|s| format!("{s}")).unwrap_or_default();
                    return Err(LspError::Died(format!("server exited: {st}; stderr: {}", self.stderr_tail())));
                }
            }
        }
    }

    pub fn stderr_tail(&self) -> String {
        let s = std::fs::read_to_string(&self.stderr_path).unwrap_or_default();
        let lines: Vec<&str> = s.lines().rev().take(6).collect();
        lines.into_iter().rev().collect::<Vec<_>>().join(" | ")
    }

    pub fn alive(&mut self) -> bool {
        matches!(self.child.try_wait(), Ok(None))
    }

    pub fn did_open(&mut self, uri: &str, text: &str) -> Result<(), LspError> {
        self.notify(
            "textDocument/didOpen",
            json!({"textDocument": {"uri": uri, "languageId": "oal", "version": 0, "text": text}}),
        )
    }

    pub fn did_close(&mut self, uri: &str) -> Result<(), LspError> {
        self.notify("textDocument/didClose", json!({"textDocument": {"uri": uri}}))
    }

    /// changes: (optional range [[l,c],[l,c]], text)
    pub fn did_change(&mut self, uri: &str, version: i64, changes: &[(Option<[[u32; 2]; 2]>, String)]) -> Result<(), LspError> {
        self.did_change_with_lengths(uri, version, changes, &[])
    }

    /// As `did_change`; `lengths[i]`, if given, is sent as the (deprecated, still widely sent) `rangeLength` of
    /// change i: the length of the replaced range in UTF-16 code units.
    pub fn did_change_with_lengths(
        &mut self,
        uri: &str,
        version: i64,
        changes: &[(Option<[[u32; 2]; 2]>, String)],
        lengths: &[Option<u32>],
    ) -> Result<(), LspError> {
        let cs: Vec<Value> = changes
            .iter()
            .enumerate()
            .map(|(i, (r, t))| match r {
                Some(r) => {
                    let mut c = json!({"range": {"start": {"line": r[0][0], "character": r[0][1]}, "end": {"line": r[1][0], "character": r[1][1]}}, "text": t});
                    if let Some(Some(l)) = lengths.get(i) {
                        c["rangeLength"] = json!(l);
                    }
                    c
                }
                None => json!({"text": t}),
            })
            .collect();
        self.notify(
            "textDocument/didChange",
            json!({"textDocument": {"uri": uri, "version": version}, "contentChanges": cs}),
        )
    }

    pub fn position_request(&mut self, method: &str, uri: &str, line: u32, character: u32) -> Result<Value, LspError> {
        let mut params = json!({"textDocument": {"uri": uri}, "position": {"line": line, "character": character}});
        if method == "textDocument/references" {
            params["context"] = json!({"includeDeclaration": true});
        }
        self.request(method, params)
    }

    pub fn rename(&mut self, uri: &str, line: u32, character: u32, new_name: &str) -> Result<Value, LspError> {
        self.request(
            "textDocument/rename",
            json!({"textDocument": {"uri": uri}, "position": {"line": line, "character": character}, "newName": new_name}),
        )
    }

    /// Ends the session. The server does not exit by itself after `exit` (its writer thread keeps the
    /// process alive), so it is given a short grace period and then killed, as editors do.
    /// An unsaved draft of a document comes and goes: the document is opened with a text whose line layout
    /// differs from the file on disk, the server is made to compute locations and diagnostics for it, and it is
    /// closed without saving. Afterwards the file on disk is the document again, and nothing of the draft may
    /// show in any answer.
    pub fn disturb(&mut self, uri: &str, disk_text: &str, broken: bool) -> Result<(), LspError> {
        if broken {
            // a draft with an error: the server publishes a diagnostic inside it
            let draft = format!("// draft\n\n\n\nlet zzdraft = nowhere ;\n{disk_text}");
            self.did_open(uri, &draft)?;
            self.position_request("textDocument/definition", uri, 0, 0)?;
        } else {
            // a valid draft: the server resolves it and computes locations inside it
            let draft = format!("// draft: not saved\n/* two more\n   lines é😉 */ let zzdraft = {{}} ;\n{disk_text}");
            self.did_open(uri, &draft)?;
            let doc = ClientDoc::new(&draft);
            let mut from = 0;
            for _ in 0..4 {
                let Some(i) = draft[from..].find("let ") else { break };
                let b = from + i + 4;
                let p = doc.position_of_byte(&draft, b);
                self.position_request("textDocument/references", uri, p[0], p[1])?;
                self.position_request("textDocument/definition", uri, p[0], p[1])?;
                from = b;
            }
        }
        // the draft is edited a few times before it is thrown away (its versions go up to 4; a client that opens the
        // document again later numbers its versions from the start again)
        // (every other draft; the others are closed as they were opened, never edited)
        if disk_text.len() % 2 == 0 {
            for v in 1..=4 {
                self.did_change(uri, v, &[(Some([[0, 0], [0, 0]]), format!("// edit {v}\n"))])?;
            }
        }
        self.did_close(uri)?;
        // a request forces the refresh that follows the close
        self.position_request("textDocument/definition", uri, 0, 0)?;
        Ok(())
    }

    pub fn shutdown(mut self) {
        self.request_timeout = Duration::from_secs(5);
        let _ = self.request("shutdown", Value::Null);
        let _ = self.notify("exit", Value::Null);
        drop(self.stdin.take());
        let start = std::time::Instant::now();
        loop {
            match self.child.try_wait() {
                Ok(Some(_)) => break,
                _ if start.elapsed() > Duration::from_millis(40) => {
                    let _ = self.child.kill();
                    let _ = self.child.wait();
                    break;
                }
                _ => std::thread::sleep(Duration::from_millis(2)),
            }
        }
        let _ = std::fs::remove_file(&self.stderr_path);
    }
}

impl Drop for Lsp {
    fn drop(&mut self) {
        if matches!(self.child.try_wait(), Ok(None)) {
            let _ = self.child.kill();
            let _ = self.child.wait();
        }
        let _ = std::fs::remove_file(&self.stderr_path);
    }
}

/// Client-side model of a text document: UTF-16 code units with line arithmetic independent of the server.
#[derive(Clone, Debug, PartialEq)]
pub struct ClientDoc {
    pub units: Vec<u16>,
}

impl ClientDoc {
    pub fn new(text: &str) -> Self {
        ClientDoc {
            units: text.encode_utf16().collect(),
        }
    }
    pub fn text(&self) -> String {
        String::from_utf16_lossy(&self.units)
    }
    fn line_starts(&self) -> Vec<usize> {
        let mut v = vec![0];
        for (i, u) in self.units.iter().enumerate() {
            if *u == b'\n' as u16 {
                v.push(i + 1);
            }
        }
        v
    }
    /// Unit offsets that are valid edit boundaries: not inside a surrogate pair, not between CR and LF.
    pub fn boundaries(&self) -> Vec<usize> {
        let mut out = Vec::new();
        for i in 0..=self.units.len() {
            let inside_pair = i > 0 && i < self.units.len() && (0xD800..0xDC00).contains(&self.units[i - 1]) && (0xDC00..0xE000).contains(&self.units[i]);
            let inside_crlf = i > 0 && i < self.units.len() && self.units[i - 1] == b'\r' as u16 && self.units[i] == b'\n' as u16;
            if !inside_pair && !inside_crlf {
                out.push(i);
            }
        }
        out
    }
    pub fn position_of(&self, off: usize) -> [u32; 2] {
        let ls = self.line_starts();
        let line = ls.iter().rposition(|s| *s <= off).unwrap_or(0);
        [line as u32, (off - ls[line]) as u32]
    }
    pub fn offset_of(&self, pos: [u32; 2]) -> usize {
        let ls = self.line_starts();
        let l = (pos[0] as usize).min(ls.len() - 1);
        (ls[l] + pos[1] as usize).min(self.units.len())
    }
    /// Applies a range replacement given in unit offsets.
    pub fn replace(&mut self, start: usize, end: usize, text: &str) {
        let new: Vec<u16> = text.encode_utf16().collect();
        self.units.splice(start..end, new);
    }
    /// Position of a UTF-8 byte offset of the current text.
    pub fn position_of_byte(&self, text: &str, byte: usize) -> [u32; 2] {
        let units = text[..byte].encode_utf16().count();
        self.position_of(units)
    }
}
