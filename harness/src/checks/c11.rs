//! C11: the syntax tree is lossless and every reported span is exact.

use super::explore::explore_case;
use super::texts::TextPlan;
use super::{Acc, Ctx};
use crate::drive::pipeline::{self, Outcome, Sources};
use crate::oracle::syntax::{check_tokens, check_tree};
use crate::pool::{Violation, Workload};
use crate::util::{hash64, Stats};
use serde_json::{json, Value};

pub struct Texts {
    pub plan: TextPlan,
}

fn first_words(s: &str) -> String {
    // a stable class of a problem message: its first five words with digits removed
    s.split_whitespace()
        .take(6)
        .map(|w| w.chars().filter(|c| !c.is_ascii_digit()).collect::<String>())
        .collect::<Vec<_>>()
        .join(" ")
}

pub fn check_text(t: &str, family: &str, st: &mut Stats) -> Vec<Violation> {
    let mut out = Vec::new();
    let (toks, errs, problems) = match crate::util::guard(|| check_tokens(t)) {
        Ok(r) => r,
        Err(_) => {
            // a crashing front end is C04's subject
            st.inc("front_end_panicked_left_to_C04");
            return out;
        }
    };
    st.add("tokens", toks.len() as u64);
    st.add("lexical_error_spans", errs.len() as u64);
    for p in &problems {
        out.push(Violation::new(
            "tokenizer output is not a lossless tiling of the text",
            json!({"signature": format!("C11 tokens: {}", first_words(p)), "problem": p}),
        ));
    }
    let (tp, has_tree) = match crate::util::guard(|| check_tree(t, &toks)) {
        Ok(r) => r,
        Err(_) => {
            st.inc("front_end_panicked_left_to_C04");
            return out;
        }
    };
    for p in &tp {
        out.push(Violation::new(
            "syntax tree or syntax error span is not exact",
            json!({"signature": format!("C11 tree: {}", first_words(p)), "problem": p}),
        ));
    }
    if has_tree {
        st.inc("trees_walked");
    }
    let multibyte = t.bytes().any(|b| b >= 0x80);
    if multibyte {
        st.inc("texts_with_multibyte");
    }
    if !errs.is_empty() {
        st.inc("texts_with_lexical_errors");
    }
    if toks.len() >= 3 && (multibyte || !errs.is_empty() || has_tree) {
        st.nontrivial(hash64(t));
        if family != "tok-full" && family != "tok-reduced" {
            st.sample(|| json!({"family": family, "text": crate::util::clip(t, 300)}));
        }
    }
    out.truncate(4);
    out
}

impl Workload for Texts {
    fn len(&self) -> u64 {
        self.plan.len()
    }
    fn case_json(&self, seed: u64, idx: u64) -> Value {
        let (texts, fam) = self.plan.texts(seed, idx);
        json!({"texts": texts, "family": fam})
    }
    fn run(&self, seed: u64, idx: u64, st: &mut Stats) -> Vec<Violation> {
        let (texts, fam) = self.plan.texts(seed, idx);
        st.inc(&format!("family:{fam}"));
        let mut v = Vec::new();
        for t in &texts {
            v.extend(check_text(t, fam, st));
        }
        v
    }
    fn run_json(&self, case: &Value, st: &mut Stats) -> Vec<Violation> {
        let mut v = Vec::new();
        for t in case["texts"].as_array().cloned().unwrap_or_default() {
            v.extend(check_text(t.as_str().unwrap_or(""), case["family"].as_str().unwrap_or("replay"), st));
        }
        v
    }
    fn chunk(&self) -> u64 {
        2000
    }
}

/// Compiler-level error spans: every span carried by a load/compile/eval error lies in its own module's text.
pub struct ErrSpans {
    pub n: u64,
}

fn check_err_spans(src: &Sources, st: &mut Stats) -> Vec<Violation> {
    let out = pipeline::run(src, None);
    let e = match &out {
        Outcome::Rejected(e) | Outcome::EvalError(e) => e,
        _ => return vec![],
    };
    st.inc(&format!("error:{}", e.kind));
    let Some(sp) = &e.span else {
        st.inc("errors_without_span");
        return vec![];
    };
    let text = src
        .files
        .iter()
        .find(|(n, _)| Sources::locator(n).url().as_str() == sp.loc)
        .map(|(_, t)| t.as_str());
    let ok = match text {
        Some(t) => {
            sp.start <= sp.end
                && sp.end <= t.len() + 1
                && t.is_char_boundary(sp.start.min(t.len()))
                && t.is_char_boundary(sp.end.min(t.len()))
        }
        None => false,
    };
    if text.is_some() && src.files.len() > 1 {
        st.inc("multi_module_error_spans_checked");
    }
    st.nontrivial(hash64(&(src.files.clone(), sp.start, sp.end)));
    if ok {
        st.inc("error_spans_ok");
        vec![]
    } else {
        vec![Violation::new(
            "a compiler error carries a span outside its own module's text",
            json!({"signature": format!("C11 error-span:{}", e.kind), "span": format!("{sp:?}"), "message": e.message, "sources": src.to_json()}),
        )]
    }
}

impl Workload for ErrSpans {
    fn len(&self) -> u64 {
        self.n
    }
    fn case_json(&self, seed: u64, idx: u64) -> Value {
        json!({"sources": explore_case(seed, "errspans", idx).sources.to_json()})
    }
    fn run(&self, seed: u64, idx: u64, st: &mut Stats) -> Vec<Violation> {
        if idx % 8 == 7 {
            // import graphs of C10's workload (cycles, missing targets; modules of different lengths with multi-byte
            // text): the span of the load error must lie in the module it names
            let loads = super::c10::Loads::new(true);
            let (g, _) = loads.graph(seed, 1_000_000 + idx);
            st.inc("import_graph_cases");
            return check_err_spans(&g.sources(), st);
        }
        check_err_spans(&explore_case(seed, "errspans", idx).sources, st)
    }
    fn run_json(&self, case: &Value, st: &mut Stats) -> Vec<Violation> {
        check_err_spans(&Sources::from_json(&case["sources"]), st)
    }
    fn chunk(&self) -> u64 {
        200
    }
}

pub fn run(ctx: &Ctx) -> i32 {
    let mut acc = Acc::new(ctx);
    let wl = Texts {
        plan: TextPlan::new(ctx.quick()),
    };
    acc.pool(&wl, "c11", false);
    let es = ErrSpans {
        n: if ctx.quick() { 20_000 } else { 500_000 },
    };
    acc.pool(&es, "c11err", false);
    // language-server sessions (edit histories of C15's workload): every error the library locates must be
    // published for the document of its module with exactly the range of its span in the client's text
    let hs = super::c15::Histories {
        n: if ctx.quick() { 400 } else { 8000 },
        max_steps: if ctx.quick() { 25 } else { 60 },
        located_only: Some("C11"),
    };
    acc.pool(&hs, "c15loc-c11", true);
    // Canary: the token walker must flag a text/position table that does not tile.
    let (toks, _, _) = check_tokens("let a = num;");
    let canary = toks.len() == 8 && toks.iter().filter(|t| !t.trivia).count() == 5;
    acc.observed.insert("canary_token_walker_sees_tokens".into(), json!(canary));
    if !canary {
        acc.inconclusive.push("token walker canary failed".into());
    }
    if !ctx.quick() {
        acc.miri(40, 60);
    }
    acc.finish(
        "exploration",
        "texts: all token sequences of length <=3 over the 51-kind alphabet and <=5 (thorough 6) over a 12-kind alphabet behind three statement prefixes (exhaustive), 18 nesting families to depth 200, generated/mutated/corpus programs, arbitrary Unicode; per text: token tiling, token values vs slices, re-lexing of slices, tree leaves vs non-trivia tokens, node spans vs hull of leaves, syntax error spans; plus compiler error spans of the exploration workload; plus recorded language-server sessions over C15's histories (no fresh server): the error the library pipeline locates in the current texts must be among the diagnostics published for the document of its module, with exactly the range of its span in the client's text; non-trivial = >=3 tokens and (multi-byte or lexical error or tree); distinct by text hash",
        2000,
        false,
        &["the tokenizer is context-free longest-match, so re-lexing a token's slice alone is a sound check"],
        json!({"exhaustive_part": "token sequences up to the stated lengths"}),
    )
}
