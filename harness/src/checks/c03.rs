//! C03: every emitted document is a closed, structurally valid OpenAPI 3 description.

use super::explore::*;
use super::{Acc, Ctx};
use crate::drive::pipeline::{self, Outcome, Sources};
use crate::oracle::canon::{canon, first_diff};
use crate::oracle::validate::validate;
use crate::pool::{Violation, Workload};
use crate::util::{hash64, Stats};
use serde_json::{json, Value};

pub struct Docs {
    pub n: u64,
}

pub fn check_doc(src: &Sources, json_doc: &Value, direct: &Value, st: &mut Stats) -> Vec<Violation> {
    let mut out = Vec::new();
    for p in validate(json_doc) {
        st.inc(&format!("problem:{}", p.class));
        if out.len() < 4 {
            out.push(Violation::new(
                "emitted document is not closed / structurally valid",
                json!({"signature": format!("C03 {}", p.class), "detail": p.detail, "sources": src.to_json()}),
            ));
        }
    }
    // (v) the YAML text parses back to the document that was serialised
    let a = canon(json_doc);
    let b = canon(direct);
    if let Some((ptr, l, r)) = first_diff(&a, &b) {
        out.push(Violation::new(
            "the YAML text does not parse back to the same document",
            json!({"signature": "C03 yaml-round-trip", "pointer": ptr, "parsed": l, "serialised": r}),
        ));
    } else {
        st.inc("yaml_round_trip_ok");
    }
    // census
    if let Some(p) = json_doc.get("paths").and_then(Value::as_object) {
        st.add("path_items", p.len() as u64);
        for (k, _) in p {
            if k.contains('{') {
                st.inc("paths_with_variables");
            }
        }
    }
    if let Some(c) = json_doc.pointer("/components/schemas").and_then(Value::as_object) {
        st.add("components", c.len() as u64);
    }
    out
}

fn run_sources(src: &Sources, origin: &str, st: &mut Stats) -> Vec<Violation> {
    let out = pipeline::run(src, None);
    let o = origin.split(':').next().unwrap_or(origin);
    st.inc(&format!("{o}:{}", out.class()));
    match &out {
        Outcome::Doc { json, direct, .. } => {
            st.inc("documents");
            let has_refs = json.to_string().contains("$ref");
            if has_refs || json.to_string().contains("\"in\":\"path\"") {
                st.nontrivial(hash64(&src.files));
                st.sample(|| json!({"origin": origin, "sources": src.to_json()}));
            }
            check_doc(src, json, direct, st)
        }
        Outcome::EmitError(e) => vec![Violation::new(
            "emitted YAML cannot be parsed / serialised",
            json!({"signature": "C03 emit-error", "error": e}),
        )],
        _ => vec![],
    }
}

impl Workload for Docs {
    fn len(&self) -> u64 {
        self.n
    }
    fn case_json(&self, seed: u64, idx: u64) -> Value {
        let c = explore_case(seed, "explore", idx);
        json!({"sources": c.sources.to_json(), "origin": c.origin})
    }
    fn run(&self, seed: u64, idx: u64, st: &mut Stats) -> Vec<Violation> {
        let c = explore_case(seed, "explore", idx);
        run_sources(&c.sources, &c.origin, st)
    }
    fn run_json(&self, case: &Value, st: &mut Stats) -> Vec<Violation> {
        run_sources(&Sources::from_json(&case["sources"]), case["origin"].as_str().unwrap_or("replay"), st)
    }
    fn chunk(&self) -> u64 {
        200
    }
}

/// Resources whose synthesised operation ids come close to each other: paths that differ by a character the label
/// scheme keeps (`%`, `$`, `@`, `.`, `_`, `~`) must get different ids; paths the scheme maps to one label (`/a-b` vs
/// `/a/b`, case variants, `{x}` vs `x`) are the open finding and are reported as such.
pub struct NearIds {
    pub n: u64,
}

fn near_ids_program(rng: &mut crate::util::Rng) -> Sources {
    const URIS: [&str; 22] = [
        "/tags/c%23", "/tags/c23", "/people/{ '@id str }", "/people/id", "/{ '$version str }/status", "/version/{ 'status int }", "/a-b", "/a/b",
        "/A", "/a", "/x/{ 'id str }", "/x/id", "/%41", "/41", "/a.b", "/a_b", "/~u", "/u", "/{ '$v num }", "/v", "/people/{ 'id str }", "/tags/c.23",
    ];
    let mut idx: Vec<usize> = (0..URIS.len()).collect();
    rng.shuffle(&mut idx);
    let k = rng.range(2, 7);
    let m = *rng.pick(&["get", "put", "delete"]);
    let mut text = String::new();
    for &u in idx.iter().take(k) {
        text.push_str(&format!("res {} on {m} -> <{{}}>;\n", URIS[u]));
    }
    Sources::single(&text)
}

impl Workload for NearIds {
    fn len(&self) -> u64 {
        self.n
    }
    fn case_json(&self, seed: u64, idx: u64) -> Value {
        let mut rng = crate::util::Rng::for_case(seed, "c03ids", idx);
        json!({"sources": near_ids_program(&mut rng).to_json(), "origin": "near-ids"})
    }
    fn run(&self, seed: u64, idx: u64, st: &mut Stats) -> Vec<Violation> {
        let mut rng = crate::util::Rng::for_case(seed, "c03ids", idx);
        run_sources(&near_ids_program(&mut rng), "near-ids", st)
    }
    fn run_json(&self, case: &Value, st: &mut Stats) -> Vec<Violation> {
        run_sources(&Sources::from_json(&case["sources"]), "near-ids", st)
    }
    fn chunk(&self) -> u64 {
        200
    }
}

/// Programs compiled together with a base description whose own paths refer to its own schemas: whatever the program
/// contributes (nothing, one resource, several), the merged document must be closed.
pub struct WithBase {
    pub n: u64,
}

fn with_base_case(seed: u64, idx: u64) -> (Sources, Value) {
    let mut rng = crate::util::Rng::for_case(seed, "c03base", idx);
    let mut base = crate::gen::base::gen_base(&mut rng, idx % 2 == 0);
    // paths of the base that point into the base's schemas, and a schema that points at another one
    base["paths"] = json!({
        "/health": {"get": {"operationId": "base-health", "responses": {"200": {"description": "ok", "content": {"application/json": {"schema": {"$ref": "#/components/schemas/Health"}}}}}}},
        "/legacy/{id}": {"parameters": [{"name": "id", "in": "path", "required": true, "schema": {"type": "string"}}], "get": {"operationId": "base-legacy", "responses": {"200": {"description": "ok"}}}}
    });
    if base.get("components").is_none() {
        base["components"] = json!({});
    }
    base["components"]["schemas"] = json!({"Health": {"type": "object", "properties": {"detail": {"$ref": "#/components/schemas/Detail"}}}, "Detail": {"type": "string"}});
    let text = match idx % 4 {
        0 => "let unused = { 'a num };\n".to_owned(),
        1 => "let t = rec x { 'next x };\nlet unused = [t];\n".to_owned(),
        2 => "res /items/{ 'id str } on get -> <{ 'a num }>;\n".to_owned(),
        _ => "let t = rec x { 'next x };\nres /items on get -> <t>;\nres /health on put -> <>;\n".to_owned(),
    };
    (Sources::single(&text), base)
}

fn check_with_base(src: &Sources, base: &Value, st: &mut Stats) -> Vec<Violation> {
    let parsed: openapiv3::OpenAPI = match serde_json::from_value(base.clone()) {
        Ok(p) => p,
        Err(_) => {
            st.inc("base_not_parseable_skipped");
            return vec![];
        }
    };
    match pipeline::run(src, Some(parsed)) {
        Outcome::Doc { json: doc, .. } => {
            st.inc("documents_with_base");
            if doc.get("paths").and_then(Value::as_object).is_some_and(|p| p.is_empty()) {
                st.inc("documents_with_base_and_no_resource");
            }
            let mut out = Vec::new();
            for p in validate(&doc) {
                out.push(Violation::new(
                    "the document built on a base description is not closed / structurally valid",
                    json!({"signature": format!("C03 with-base {}", p.class), "detail": p.detail, "sources": src.to_json(), "base": base}),
                ));
            }
            out.truncate(3);
            out
        }
        Outcome::Panic { info, .. } => vec![Violation::new(
            "building the document on a base description panicked",
            json!({"signature": format!("C03 with-base panic {}", info.signature()), "sources": src.to_json()}),
        )],
        _ => vec![],
    }
}

impl Workload for WithBase {
    fn len(&self) -> u64 {
        self.n
    }
    fn case_json(&self, seed: u64, idx: u64) -> Value {
        let (s, b) = with_base_case(seed, idx);
        json!({"sources": s.to_json(), "base": b})
    }
    fn run(&self, seed: u64, idx: u64, st: &mut Stats) -> Vec<Violation> {
        let (s, b) = with_base_case(seed, idx);
        st.nontrivial(hash64(&(s.files.clone(), b.to_string())));
        check_with_base(&s, &b, st)
    }
    fn run_json(&self, case: &Value, st: &mut Stats) -> Vec<Violation> {
        check_with_base(&Sources::from_json(&case["sources"]), &case["base"], st)
    }
    fn chunk(&self) -> u64 {
        100
    }
}

/// The document as the command-line compiler writes it: a series of accepted programs, largest first, is
/// compiled into the same target path of one workspace (a target is normally regenerated, not created); after
/// each run the target's text must parse, be valid, and be the document the library builds for that program.
pub struct CliTargets {
    pub n: u64,
}

fn cli_series(seed: u64, idx: u64, st: &mut Stats) -> Vec<Sources> {
    let mut v: Vec<(usize, Sources)> = Vec::new();
    for k in 0..3u64 {
        if let Some(c) = super::common::gen_wt_case(seed, "c03cli", idx * 3 + k, &crate::gen::wt::Cfg::default(), st) {
            if let Outcome::Doc { yaml, .. } = pipeline::run(&c.sources, None) {
                v.push((yaml.len(), c.sources));
            }
        }
    }
    v.sort_by(|a, b| b.0.cmp(&a.0));
    v.into_iter().map(|x| x.1).collect()
}

fn check_cli_series(series: &[Sources], st: &mut Stats) -> Vec<Violation> {
    use crate::drive::cli::{run_cli, write_sources, TempDir};
    let dir = TempDir::new("c03cli");
    for (k, src) in series.iter().enumerate() {
        // a fresh source tree per run, the same target
        for f in ["main.oal", "a.oal", "lib", "twin"] {
            let p = dir.path.join(f);
            let _ = std::fs::remove_file(&p);
            let _ = std::fs::remove_dir_all(&p);
        }
        write_sources(&dir.path, src);
        let r = run_cli(&dir.path, &src.files[0].0, "api.yaml", None);
        st.inc("cli_runs");
        if !r.success() {
            st.inc("cli_failed_skipped");
            continue;
        }
        if k > 0 {
            st.inc("cli_targets_regenerated");
        }
        let text = std::fs::read_to_string(dir.path.join("api.yaml")).unwrap_or_default();
        let got: Value = match serde_yaml::from_str(&text) {
            Ok(v) => v,
            Err(e) => {
                return vec![Violation::new(
                    "the target written by oal-cli does not parse as YAML",
                    json!({"signature": "C03 cli-target-unparseable", "run": k, "error": e.to_string(), "sources": src.to_json()}),
                )]
            }
        };
        for p in validate(&got) {
            if p.class != "duplicate-synthesised-operationId" {
                return vec![Violation::new(
                    "the target written by oal-cli is not closed / structurally valid",
                    json!({"signature": format!("C03 cli-target {}", p.class), "run": k, "detail": p.detail, "sources": src.to_json()}),
                )];
            }
        }
        if let Outcome::Doc { json: want, .. } = pipeline::run(src, None) {
            if let Some((ptr, _, _)) = first_diff(&canon(&got), &canon(&want)) {
                return vec![Violation::new(
                    "the target written by oal-cli is not the document built for the program",
                    json!({"signature": "C03 cli-target-differs", "run": k, "pointer": ptr, "sources": src.to_json()}),
                )];
            }
            st.inc("cli_targets_equal_to_library_document");
        }
    }
    vec![]
}

impl Workload for CliTargets {
    fn len(&self) -> u64 {
        self.n
    }
    fn case_json(&self, seed: u64, idx: u64) -> Value {
        let mut st = Stats::new();
        json!({"series": cli_series(seed, idx, &mut st).iter().map(|s| s.to_json()).collect::<Vec<_>>()})
    }
    fn run(&self, seed: u64, idx: u64, st: &mut Stats) -> Vec<Violation> {
        let series = cli_series(seed, idx, st);
        if series.len() >= 2 {
            st.nontrivial(hash64(&series.iter().map(|s| s.files.clone()).collect::<Vec<_>>()));
        }
        check_cli_series(&series, st)
    }
    fn run_json(&self, case: &Value, st: &mut Stats) -> Vec<Violation> {
        let series: Vec<Sources> = case["series"].as_array().map(|a| a.iter().map(Sources::from_json).collect()).unwrap_or_default();
        check_cli_series(&series, st)
    }
    fn chunk(&self) -> u64 {
        10
    }
}

pub fn run(ctx: &Ctx) -> i32 {
    let mut acc = Acc::new(ctx);
    let wl = Docs {
        n: if ctx.quick() { 100_000 } else { 3_000_000 },
    };
    acc.pool(&wl, "c03", false);
    let ct = CliTargets {
        n: if ctx.quick() { 150 } else { 3000 },
    };
    acc.pool(&ct, "c03cli", false);
    let ni = NearIds {
        n: if ctx.quick() { 3000 } else { 100_000 },
    };
    acc.pool(&ni, "c03ids", false);
    let wb = WithBase {
        n: if ctx.quick() { 2000 } else { 50_000 },
    };
    acc.pool(&wb, "c03base", false);
    // Canary: a dangling $ref and a missing path parameter must be flagged.
    let bad = json!({"paths": {"/a/{x}": {"get": {"responses": {"700": {"description": ""}}, "operationId": "get-a-x"},
        "parameters": []}}, "components": {"schemas": {"a": {"$ref": "#/components/schemas/missing"}}}});
    let classes: Vec<&str> = validate(&bad).iter().map(|p| p.class).collect();
    let canary = classes.contains(&"dangling-ref")
        && classes.contains(&"path-variables-and-parameters-differ")
        && classes.contains(&"invalid-response-key");
    acc.observed.insert("canary_validator_flags_corrupted_document".into(), json!(canary));
    if !canary {
        acc.inconclusive.push("validator canary did not fire".into());
    }
    acc.witnesses();
    if !ctx.quick() {
        // the status domain under the interpreter: NonZeroU16::new_unchecked with a value the range check let through is UB
        acc.miri(8, 18);
    }
    acc.finish(
        "exploration",
        "every document emitted for the exploration workload (G-wt programs, accepted kind-breaking/token/byte mutants, corpus), re-parsed from its YAML text and walked by an independent validator: $ref closure, path variables vs required path parameters, response key domain, operationId uniqueness, YAML round trip; plus series of three accepted programs, largest first, compiled by the real oal-cli into one and the same target path, the target's text re-parsed, validated and compared with the library's document after every run; non-trivial = document contains a $ref or a path parameter; distinct by source hash",
        if ctx.quick() { 1000 } else { 10000 },
        false,
        &["serde_yaml's parser (YAML 1.2 core schema, as OpenAPI 3.0 prescribes) is trusted for the round trip",
          "programs that repeat a variable name inside one path are outside the property",
          "explicit duplicate operationIds written by the program itself are not counted"],
        json!({}),
    )
}
