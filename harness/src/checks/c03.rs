//! C03: every emitted document is a closed, structurally valid OpenAPI 3 description.

use super::explore::*;
use super::{Acc, Ctx};
use crate::drive::pipeline::{self, Outcome, Sources};
use crate::oracle::canon::{canon, first_diff};
use crate::oracle::validate::validate;
use crate::pool::{Violation, Workload};
use crate::util::{hash64, Stats};
use serde_json::{json, Value};

pub struct Docs {
    pub n: u64,
}

pub fn check_doc(src: &Sources, json_doc: &Value, direct: &Value, st: &mut Stats) -> Vec<Violation> {
    let mut out = Vec::new();
    for p in validate(json_doc) {
        st.inc(&format!("problem:{}", p.class));
        if out.len() < 4 {
            out.push(Violation::new(
                "emitted document is not closed / structurally valid",
                json!({"signature": format!("C03 {}", p.class), "detail": p.detail, "sources": src.to_json()}),
            ));
        }
    }
    // (v) the YAML text parses back to the document that was serialised
    let a = canon(json_doc);
    let b = canon(direct);
    if let Some((ptr, l, r)) = first_diff(&a, &b) {
        out.push(Violation::new(
            "the YAML text does not parse back to the same document",
            json!({"signature": "C03 yaml-round-trip", "pointer": ptr, "parsed": l, "serialised": r}),
        ));
    } else {
        st.inc("yaml_round_trip_ok");
    }
    // census
    if let Some(p) = json_doc.get("paths").and_then(Value::as_object) {
        st.add("path_items", p.len() as u64);
        for (k, _) in p {
            if k.contains('{') {
                st.inc("paths_with_variables");
            }
        }
    }
    if let Some(c) = json_doc.pointer("/components/schemas").and_then(Value::as_object) {
        st.add("components", c.len() as u64);
    }
    out
}

fn run_sources(src: &Sources, origin: &str, st: &mut Stats) -> Vec<Violation> {
    let out = pipeline::run(src, None);
    let o = origin.split(':').next().unwrap_or(origin);
    st.inc(&format!("{o}:{}", out.class()));
    match &out {
        Outcome::Doc { json, direct, .. } => {
            st.inc("documents");
            let has_refs = json.to_string().contains("$ref");
            if has_refs || json.to_string().contains("\"in\":\"path\"") {
                st.nontrivial(hash64(&src.files));
                st.sample(|| json!({"origin": origin, "sources": src.to_json()}));
            }
            check_doc(src, json, direct, st)
        }
        Outcome::EmitError(e) => vec![Violation::new(
            "emitted YAML cannot be parsed / serialised",
            json!({"signature": "C03 emit-error", "error": e}),
        )],
        _ => vec![],
    }
}

impl Workload for Docs {
    fn len(&self) -> u64 {
        self.n
    }
    fn case_json(&self, seed: u64, idx: u64) -> Value {
        let c = explore_case(seed, "explore", idx);
        json!({"sources": c.sources.to_json(), "origin": c.origin})
    }
    fn run(&self, seed: u64, idx: u64, st: &mut Stats) -> Vec<Violation> {
        let c = explore_case(seed, "explore", idx);
        run_sources(&c.sources, &c.origin, st)
    }
    fn run_json(&self, case: &Value, st: &mut Stats) -> Vec<Violation> {
        run_sources(&Sources::from_json(&case["sources"]), case["origin"].as_str().unwrap_or("replay"), st)
    }
    fn chunk(&self) -> u64 {
        200
    }
}

pub fn run(ctx: &Ctx) -> i32 {
    let mut acc = Acc::new(ctx);
    let wl = Docs {
        n: if ctx.quick() { 100_000 } else { 3_000_000 },
    };
    acc.pool(&wl, "c03", false);
    // Canary: a dangling $ref and a missing path parameter must be flagged.
    let bad = json!({"paths": {"/a/{x}": {"get": {"responses": {"700": {"description": ""}}, "operationId": "get-a-x"},
        "parameters": []}}, "components": {"schemas": {"a": {"$ref": "#/components/schemas/missing"}}}});
    let classes: Vec<&str> = validate(&bad).iter().map(|p| p.class).collect();
    let canary = classes.contains(&"dangling-ref")
        && classes.contains(&"path-variables-and-parameters-differ")
        && classes.contains(&"invalid-response-key");
    acc.observed.insert("canary_validator_flags_corrupted_document".into(), json!(canary));
    if !canary {
        acc.inconclusive.push("validator canary did not fire".into());
    }
    acc.witnesses();
    if !ctx.quick() {
        // the status domain under the interpreter: NonZeroU16::new_unchecked with a value the range check let through is UB
        acc.miri(8, 18);
    }
    acc.finish(
        "exploration",
        "every document emitted for the exploration workload (G-wt programs, accepted kind-breaking/token/byte mutants, corpus), re-parsed from its YAML text and walked by an independent validator: $ref closure, path variables vs required path parameters, response key domain, operationId uniqueness, YAML round trip; non-trivial = document contains a $ref or a path parameter; distinct by source hash",
        if ctx.quick() { 1000 } else { 10000 },
        false,
        &["serde_yaml's parser (YAML 1.2 core schema, as OpenAPI 3.0 prescribes) is trusted for the round trip",
          "programs that repeat a variable name inside one path are outside the property",
          "explicit duplicate operationIds written by the program itself are not counted"],
        json!({}),
    )
}
