//! C06: compilation is deterministic — same sources, byte-identical document, across processes (hash
//! seeds differ per process) and across repeated in-process compilations (also on a second thread).

use super::common::*;
use super::{Acc, Ctx};
use crate::drive::cli::{run_cli, write_sources, TempDir};
use crate::drive::pipeline::{self, Outcome, Sources};
use crate::gen::wt::Cfg;
use crate::pool::{Violation, Workload};
use crate::util::{hash64, Stats};
use serde_json::{json, Value};

pub fn cfg() -> Cfg {
    Cfg {
        multi_examples: true,
        max_res: 4,
        max_decls: 8,
        shadow_pct: 12,
        ..Cfg::default()
    }
}

pub struct Processes {
    pub n: u64,
    pub runs: usize,
}

/// Resources whose synthesised operation ids, component names or path keys are close to each other or collide
/// (`/a/b` vs `/a-b`, `/x/{id}` vs `/x/id`, `/` vs `/root`, case variants): whatever the compiler does about a
/// collision must be the same in every process.
fn collision_program(rng: &mut crate::util::Rng) -> Sources {
    const URIS: [&str; 14] = [
        "/a/b", "/a-b", "/a_b", "/A", "/a", "/", "/root", "/x/{ 'id str }", "/x/id", "/pets/{ 'id int }", "/pets/id", "/Pets", "/pets",
        "/a/b/{ 'b num }",
    ];
    const METHODS: [&str; 4] = ["get", "put", "delete", "patch"];
    let mut idx: Vec<usize> = (0..URIS.len()).collect();
    rng.shuffle(&mut idx);
    let k = rng.range(2, 6);
    let mut text = String::from("let r = rec x { 'next x, 'v num };\nlet @named = { 'a r };\n");
    for &u in idx.iter().take(k) {
        let m = *rng.pick(&METHODS);
        let m2 = *rng.pick(&METHODS);
        let body = match rng.below(4) {
            0 => "{}",
            1 => "r",
            2 => "@named",
            _ => "{ 'p str }",
        };
        if m == m2 {
            text.push_str(&format!("res {} on {m} -> <{body}>;\n", URIS[u]));
        } else {
            text.push_str(&format!("res {} on {m} -> <{body}>, {m2} -> <status=404, {{}}>;\n", URIS[u]));
        }
    }
    Sources::single(&text)
}

/// The sources of case `idx`: mostly reference-clean G-wt programs, one in six straight from the generator (also
/// the shapes the reference semantics leaves open, e.g. colliding operation ids), one in six collision-prone.
fn case_sources(seed: u64, salt: &str, idx: u64, st: &mut Stats) -> Option<(Sources, bool)> {
    match idx % 6 {
        3 => {
            // a large module: several hundred declarations in front of a program with recursion, so that whatever
            // the front end keeps per module (memo table, arena, interner) grows well past small-program sizes
            // before the nodes that name implicit components are created
            let mut rng = crate::util::Rng::for_case(seed, &format!("{salt}-large"), idx);
            let mut text = String::new();
            let n = rng.range(250, 500);
            for i in 0..n {
                match i % 4 {
                    0 => text.push_str(&format!("let zfill{i} = {{ 'a num, 'b [str], 'c {{ 'd bool }} }};\n")),
                    1 => text.push_str(&format!("let zfill{i} x = {{ 'p x, 'q zfill{} }} ~ num;\n", i - 1)),
                    2 => text.push_str(&format!("let zfill{i} = /s{i}/{{ 'id int }} on get -> <status=200, zfill{}>, put : <zfill{}> -> <>;\n", i - 2, i - 2)),
                    _ => text.push_str(&format!("# description: \"filler {i}\"\nlet zfill{i} = (zfill{} str) ~ [zfill{}];\n", i - 2, i - 3)),
                }
            }
            let tail = collision_program(&mut rng);
            text.push_str(&tail.files[0].1);
            st.inc("large_programs");
            Some((Sources::single(&text), true))
        }
        5 => {
            let mut rng = crate::util::Rng::for_case(seed, &format!("{salt}-collide"), idx);
            st.inc("collision_prone_programs");
            Some((collision_program(&mut rng), true))
        }
        4 => {
            let mut rng = crate::util::Rng::for_case(seed, &format!("{salt}-raw"), idx);
            let p = crate::gen::wt::generate(&mut rng, &cfg());
            st.inc("unfiltered_programs");
            Some((sources_of(&crate::gen::print::print_program(&p)), true))
        }
        _ => gen_wt_case(seed, salt, idx, &cfg(), st).map(|c| {
            let feats = features(&c.prog);
            let nt = feats.contains(&"annotation") && (feats.contains(&"reference") || feats.contains(&"op-range"));
            (c.sources, nt)
        }),
    }
}

fn first_byte_diff(a: &str, b: &str) -> usize {
    a.bytes().zip(b.bytes()).position(|(x, y)| x != y).unwrap_or(a.len().min(b.len()))
}

fn context(s: &str, at: usize) -> String {
    let lo = at.saturating_sub(60);
    let hi = (at + 60).min(s.len());
    let mut lo2 = lo;
    while !s.is_char_boundary(lo2) {
        lo2 += 1;
    }
    let mut hi2 = hi;
    while !s.is_char_boundary(hi2) {
        hi2 -= 1;
    }
    s[lo2..hi2].to_owned()
}

fn check_processes(src: &Sources, runs: usize, st: &mut Stats) -> Vec<Violation> {
    let dir = TempDir::new("c06");
    write_sources(&dir.path, src);
    let _ = std::fs::write(dir.path.join("oal.toml"), format!("[api]\nmain = \"{}\"\n", src.files[0].0));
    let conf = dir.path.join("oal.toml");
    let mut first: Option<String> = None;
    for i in 0..runs {
        let target = format!("out{i}.yaml");
        // the last target already exists (a target is normally regenerated) and holds another, longer document, or
        // nearly the document to come: with CRLF line ends, without its final newline, or followed by bytes that are
        // not UTF-8
        if i + 1 == runs {
            let prev: Vec<u8> = match (crate::util::hash64(&src.files) % 4, &first) {
                (1, Some(f)) => f.replace('\n', "\r\n").into_bytes(),
                (2, Some(f)) => f.trim_end_matches('\n').as_bytes().to_vec(),
                (3, Some(f)) => {
                    let mut b = f.clone().into_bytes();
                    b.extend_from_slice(b"\xff\xfe left over\n");
                    b
                }
                _ => format!("previous: generation\nof: the target\npadding: \"{}\"\n", "x".repeat(60_000)).into_bytes(),
            };
            let _ = std::fs::write(dir.path.join(&target), prev);
            st.inc("cli_runs_over_an_existing_target");
        }
        // same sources at the same locations, addressed from different working directories
        let r = match i % 4 {
            1 => {
                st.inc("cli_runs_from_parent_directory");
                crate::drive::cli::run_cli_conf_from(dir.path.parent().unwrap_or(&dir.path), &conf, &target)
            }
            3 => {
                st.inc("cli_runs_from_root_directory");
                crate::drive::cli::run_cli_conf_from(std::path::Path::new("/"), &conf, &target)
            }
            _ => run_cli(&dir.path, &src.files[0].0, &target, None),
        };
        st.inc("cli_runs");
        if !r.success() {
            st.inc("cli_failed_skipped");
            return vec![];
        }
        let bytes = std::fs::read_to_string(dir.path.join(&target)).unwrap_or_default();
        match &first {
            None => first = Some(bytes),
            Some(f) => {
                if *f != bytes {
                    let at = first_byte_diff(f, &bytes);
                    // which key set is unordered: the innermost mapping key before the difference
                    let line_start = f[..at.min(f.len())].rfind('\n').map(|i| i + 1).unwrap_or(0);
                    let indent = f[line_start..].chars().take_while(|c| *c == ' ').count();
                    let parent = f[..line_start]
                        .lines()
                        .rev()
                        .find(|l| l.chars().take_while(|c| *c == ' ').count() < indent && l.trim_end().ends_with(':'))
                        .map(|l| l.trim().trim_end_matches(':').to_owned())
                        .unwrap_or_default();
                    return vec![Violation::new(
                        "two compilations of the same sources in different processes produced different bytes",
                        json!({"signature": format!("C06 process-nondeterminism under key '{parent}'"), "run": i,
                               "first": context(f, at), "other": context(&bytes, at)}),
                    )];
                }
            }
        }
    }
    st.inc("programs_byte_identical_across_processes");
    vec![]
}

impl Workload for Processes {
    fn len(&self) -> u64 {
        self.n
    }
    fn case_json(&self, seed: u64, idx: u64) -> Value {
        let mut st = Stats::new();
        match case_sources(seed, "c06", idx, &mut st) {
            Some((s, _)) => json!({"sources": s.to_json()}),
            None => json!({"skipped": true}),
        }
    }
    fn run(&self, seed: u64, idx: u64, st: &mut Stats) -> Vec<Violation> {
        let Some((src, nt)) = case_sources(seed, "c06", idx, st) else { return vec![] };
        let v = check_processes(&src, self.runs, st);
        if nt {
            st.nontrivial(hash64(&src.files));
            st.sample(|| json!({"sources": src.to_json(), "processes": self.runs}));
        }
        v
    }
    fn run_json(&self, case: &Value, st: &mut Stats) -> Vec<Violation> {
        if case.get("skipped").is_some() {
            return vec![];
        }
        check_processes(&Sources::from_json(&case["sources"]), self.runs.max(16), st)
    }
    fn chunk(&self) -> u64 {
        10
    }
}

/// In-process: compile A, B, A again, and A on a second thread; A's bytes must be identical each time.
pub struct InProcess {
    pub n: u64,
}

fn yaml_of(src: &Sources) -> Option<String> {
    match pipeline::run(src, None) {
        Outcome::Doc { yaml, .. } => Some(yaml),
        _ => None,
    }
}

fn check_in_process(a: &Sources, b: &Sources, st: &mut Stats) -> Vec<Violation> {
    let Some(y1) = yaml_of(a) else {
        st.inc("not_accepted_skipped");
        return vec![];
    };
    let _ = yaml_of(b);
    let y2 = yaml_of(a);
    let a2 = a.clone();
    let y3 = std::thread::Builder::new()
        .stack_size(8 * 1024 * 1024)
        .spawn(move || yaml_of(&a2))
        .ok()
        .and_then(|h| h.join().ok())
        .flatten();
    st.inc("in_process_triples");
    for (k, y) in [("repeat", &y2), ("second-thread", &y3)] {
        match y {
            Some(y) if *y == y1 => {}
            Some(y) => {
                let at = first_byte_diff(&y1, y);
                return vec![Violation::new(
                    "repeated in-process compilation of the same sources produced different bytes",
                    json!({"signature": format!("C06 in-process-nondeterminism ({k})"), "first": context(&y1, at), "other": context(y, at)}),
                )];
            }
            None => {
                return vec![Violation::new(
                    "repeated in-process compilation did not produce a document",
                    json!({"signature": format!("C06 in-process-failure ({k})")}),
                )]
            }
        }
    }
    st.inc("in_process_identical");
    vec![]
}

impl Workload for InProcess {
    fn len(&self) -> u64 {
        self.n
    }
    fn case_json(&self, seed: u64, idx: u64) -> Value {
        let mut st = Stats::new();
        let a = case_sources(seed, "c06a", idx, &mut st);
        let b = gen_wt_case(seed, "c06b", idx, &cfg(), &mut st);
        match (a, b) {
            (Some(a), Some(b)) => json!({"a": a.0.to_json(), "b": b.sources.to_json()}),
            _ => json!({"skipped": true}),
        }
    }
    fn run(&self, seed: u64, idx: u64, st: &mut Stats) -> Vec<Violation> {
        let (Some(a), Some(b)) = (case_sources(seed, "c06a", idx, st), gen_wt_case(seed, "c06b", idx, &cfg(), st)) else {
            return vec![];
        };
        st.nontrivial(hash64(&a.0.files));
        check_in_process(&a.0, &b.sources, st)
    }
    fn run_json(&self, case: &Value, st: &mut Stats) -> Vec<Violation> {
        if case.get("skipped").is_some() {
            return vec![];
        }
        check_in_process(&Sources::from_json(&case["a"]), &Sources::from_json(&case["b"]), st)
    }
    fn chunk(&self) -> u64 {
        100
    }
}

pub fn run(ctx: &Ctx) -> i32 {
    let mut acc = Acc::new(ctx);
    let p = Processes {
        n: if ctx.quick() { 600 } else { 5000 },
        runs: if ctx.quick() { 8 } else { 32 },
    };
    acc.pool(&p, "c06proc", false);
    let ip = InProcess {
        n: if ctx.quick() { 10_000 } else { 300_000 },
    };
    acc.pool(&ip, "c06inproc", false);
    if acc.stats.get("programs_byte_identical_across_processes") + acc.found.len() as u64 == 0 {
        acc.inconclusive.push("no program was compiled across processes".into());
    }
    let runs = p.runs;
    acc.finish(
        "exploration",
        &format!("G-wt programs biased to what can leak map order (examples with >=2 entries on contents and schemas, many references, ranges, modules, paths, nested annotation maps; one in six unfiltered by the reference semantics, one in six with near-colliding paths / operation ids / component names): each compiled by the real oal-cli in {runs} fresh processes (each has its own hash seeds; half of them started from another working directory through --conf <absolute path>) and the target files compared byte for byte; plus in-process triples A, B, A and A on a second thread through the library entry points; non-trivial = program with annotations and (references or ranges); distinct by source hash"),
        if ctx.quick() { 100 } else { 1000 },
        false,
        &["byte equality of the emitted YAML is the oracle; nothing is normalised"],
        json!({"processes_per_program": runs}),
    )
}
