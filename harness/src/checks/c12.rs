//! C12: parser memoisation is invisible and keeps parsing linear.

use super::texts::TextPlan;
use super::{Acc, Ctx};
use crate::gen::tok::nesting;
use crate::oracle::syntax::{parse_dump, parse_dump_limited};
use crate::pool::{Violation, Workload};
use crate::util::{hash64, Stats};
use serde_json::{json, Value};

pub struct Memo {
    pub plan: TextPlan,
}

pub const K: usize = 100;
pub const C: usize = 100;
pub const UNCACHED_LIMIT: usize = 200_000;
/// bound on allocated syntax nodes per token (calibrated: the unchanged parser stays below 5 nodes per token)
pub const KN: usize = 20;
pub const CN: usize = 100;

pub fn check_text(t: &str, family: &str, st: &mut Stats) -> Vec<Violation> {
    let mut out = Vec::new();
    // The cached parse runs under a read limit just above the linear bound, so that a super-linear parser is
    // reported after bounded work instead of being waited for.
    let n0 = match crate::util::guard(|| crate::oracle::syntax::count_non_trivia(t)) {
        Ok(n) => n + 1,
        Err(_) => {
            st.inc("front_end_panicked_left_to_C04");
            return out;
        }
    };
    let cached = match crate::util::guard(|| parse_dump_limited(t, true, K * n0 + C + 1)) {
        Ok(Some(c)) => c,
        Ok(None) => {
            out.push(Violation::new(
                "the memoising parser read more tokens than the linear bound allows",
                json!({"signature": "C12 linear-bound", "reads": "cut off above the bound", "tokens": n0, "bound": K * n0 + C}),
            ));
            return out;
        }
        Err(_) => {
            st.inc("front_end_panicked_left_to_C04");
            return out;
        }
    };
    let n = cached.non_trivia + 1;
    st.inc("cached_parses");
    st.add("cache_hits", cached.hits as u64);
    st.max("max_reads_per_token_x100", (cached.reads * 100 / n) as u64);
    st.max("max_tokens", cached.tokens as u64);
    st.max("max_nodes_per_token_x100", (cached.arena * 100 / n) as u64);
    if cached.arena > KN * n + CN {
        out.push(Violation::new(
            "the memoising parser allocated more syntax nodes than the linear bound allows",
            json!({"signature": "C12 linear-bound-nodes", "nodes": cached.arena, "tokens": n, "bound": KN * n + CN}),
        ));
    }
    if cached.reads > K * n + C {
        out.push(Violation::new(
            "the memoising parser read more tokens than the linear bound allows",
            json!({"signature": "C12 linear-bound", "reads": cached.reads, "tokens": n, "bound": K * n + C}),
        ));
    }
    match parse_dump_limited(t, false, UNCACHED_LIMIT) {
        None => st.inc("uncached_infeasible"),
        Some(un) => {
            st.inc("compared_with_uncached");
            st.max("max_uncached_reads", un.reads as u64);
            let same = cached.ok == un.ok
                && cached.stop_valid == un.stop_valid
                && cached.stop_span == un.stop_span
                && cached.err == un.err
                && cached.tree == un.tree;
            if !same {
                let what = if cached.ok != un.ok {
                    "ok/err"
                } else if cached.stop_span != un.stop_span || cached.stop_valid != un.stop_valid {
                    "stop cursor / error span"
                } else if cached.tree != un.tree {
                    "tree"
                } else {
                    "error"
                };
                out.push(Violation::new(
                    "parsing with the memo table differs from parsing without it",
                    json!({"signature": format!("C12 memo-visible: {what}"), "cached": format!("{:?}", (cached.ok, cached.stop_span, &cached.err)), "uncached": format!("{:?}", (un.ok, un.stop_span, &un.err)),
                           "cached_tree": crate::util::clip(&cached.tree, 400), "uncached_tree": crate::util::clip(&un.tree, 400)}),
                ));
            }
            if cached.hits > 0 {
                st.nontrivial(hash64(t));
                if family != "tok-full" && family != "tok-reduced" {
                    st.sample(|| json!({"family": family, "text": crate::util::clip(t, 200), "cached_reads": cached.reads, "uncached_reads": un.reads, "cache_hits": cached.hits}));
                }
            }
        }
    }
    out
}

impl Workload for Memo {
    fn len(&self) -> u64 {
        self.plan.len()
    }
    fn case_json(&self, seed: u64, idx: u64) -> Value {
        let (texts, fam) = self.plan.texts(seed, idx);
        json!({"texts": texts, "family": fam})
    }
    fn run(&self, seed: u64, idx: u64, st: &mut Stats) -> Vec<Violation> {
        let (texts, fam) = self.plan.texts(seed, idx);
        st.inc(&format!("family:{fam}"));
        let mut v = Vec::new();
        for t in &texts {
            v.extend(check_text(t, fam, st));
        }
        v
    }
    fn run_json(&self, case: &Value, st: &mut Stats) -> Vec<Violation> {
        let mut v = Vec::new();
        for t in case["texts"].as_array().cloned().unwrap_or_default() {
            v.extend(check_text(t.as_str().unwrap_or(""), case["family"].as_str().unwrap_or("replay"), st));
        }
        v
    }
    fn chunk(&self) -> u64 {
        1000
    }
}

/// Growth of the logical work counter along nesting families: reads(2d) / reads(d) must stay near 2.
pub struct Growth;

impl Workload for Growth {
    fn len(&self) -> u64 {
        22
    }
    fn case_json(&self, _seed: u64, idx: u64) -> Value {
        json!({"family": idx})
    }
    fn run(&self, _seed: u64, idx: u64, st: &mut Stats) -> Vec<Violation> {
        let fam = idx as usize;
        let mut out = Vec::new();
        for d in [25usize, 50, 100] {
            let (Some(a), Some(b)) = (nesting(fam, d), nesting(fam, 2 * d)) else { continue };
            let bound = |t: &str| K * (crate::oracle::syntax::count_non_trivia(t) + 1) + C + 1;
            let (Some(da), Some(db)) = (parse_dump_limited(&a, true, bound(&a)), parse_dump_limited(&b, true, bound(&b))) else {
                out.push(Violation::new(
                    "the memoising parser read more tokens than the linear bound allows",
                    json!({"signature": "C12 linear-bound", "family": fam, "d": d}),
                ));
                continue;
            };
            let ra = da.reads.max(1);
            let rb = db.reads;
            let ratio_x100 = rb * 100 / ra;
            st.max("max_growth_ratio_x100", ratio_x100 as u64);
            st.inc("growth_pairs");
            st.nontrivial(hash64(&(fam, d)));
            st.sample(|| json!({"family": fam, "d": d, "reads_d": ra, "reads_2d": rb}));
            let node_ratio_x100 = db.arena * 100 / da.arena.max(1);
            st.max("max_node_growth_ratio_x100", node_ratio_x100 as u64);
            if node_ratio_x100 > 250 {
                out.push(Violation::new(
                    "allocated syntax nodes grow faster than linearly with nesting depth",
                    json!({"signature": "C12 nesting-growth-nodes", "family": fam, "d": d, "nodes_d": da.arena, "nodes_2d": db.arena}),
                ));
            }
            if ratio_x100 > 250 {
                out.push(Violation::new(
                    "token reads grow faster than linearly with nesting depth",
                    json!({"signature": "C12 nesting-growth", "family": fam, "d": d, "reads_d": ra, "reads_2d": rb}),
                ));
            }
        }
        out
    }
    fn run_json(&self, case: &Value, st: &mut Stats) -> Vec<Violation> {
        self.run(0, case["family"].as_u64().unwrap_or(0), st)
    }
    fn chunk(&self) -> u64 {
        2
    }
}

pub fn run(ctx: &Ctx) -> i32 {
    let mut acc = Acc::new(ctx);
    let wl = Memo {
        plan: TextPlan::new(ctx.quick()),
    };
    acc.pool(&wl, "c12", false);
    acc.pool(&Growth, "c12growth", false);
    if acc.stats.get("compared_with_uncached") < 1000 {
        acc.inconclusive.push("fewer than 1000 sequences were compared with the uncached parser".into());
    }
    // Canary: the structural dump distinguishes different parses.
    let canary = parse_dump("let a = (num);", true).tree != parse_dump("let a = num;", true).tree
        && parse_dump("let a = (num);", true).hits > 0;
    acc.observed.insert("canary_dump_distinguishes_parses_and_cache_is_hit".into(), json!(canary));
    if !canary {
        acc.inconclusive.push("dump canary failed".into());
    }
    let max_rpt = acc.stats.get_max("max_reads_per_token_x100") as f64 / 100.0;
    if !ctx.quick() {
        acc.miri(40, 60);
    }
    acc.finish(
        "exploration",
        "the text workload of C11 (exhaustive token sequences, nesting families, programs, mutants, random texts); each text parsed with Context::new and Context::new().without_cache() (uncached parse cut off at 200k token reads through the read-limit hook and then counted as infeasible), results compared structurally; cached reads bounded by 100*n+100; growth ratio reads(2d)/reads(d) <= 2.5 on 22 nesting families; non-trivial = compared with the uncached parser and the cache was hit at least once; distinct by text hash",
        2000,
        false,
        &["K=100, c=100 leave a 4x margin over the maximum measured on the unchanged tree (see max_reads_per_token)"],
        json!({"bound_K": K, "bound_c": C, "max_reads_per_token_observed": max_rpt}),
    )
}
