//! C04: any text is answered with a result or diagnostics, never a crash (in-process part:
//! tokenizer+parser, the playground entry point, the language server's load/evaluate cycle).

use super::texts::TextPlan;
use super::{Acc, Ctx};
use crate::pool::{Violation, Workload};
use crate::util::{guard, hash64, Stats};
use oal_compiler::tree::Core;
use serde_json::{json, Value};

pub struct Crash {
    pub plan: TextPlan,
}

fn lsp_cycle(t: &str) -> Result<(usize, bool), String> {
    use lsp_types::{DidOpenTextDocumentParams, TextDocumentItem};
    let mut ws = oal_client::lsp::Workspace::default();
    let uri = lsp_types::Url::parse("file:///ws-c04/main.oal").unwrap();
    let loc = ws
        .open(DidOpenTextDocumentParams {
            text_document: TextDocumentItem {
                uri,
                language_id: "oal".into(),
                version: 0,
                text: t.to_owned(),
            },
        })
        .map_err(|e| e.to_string())?;
    let ok = match ws.load(&loc) {
        Ok(mods) => ws.eval(&mods).is_ok(),
        Err(_) => false,
    };
    let d = ws.diagnostics().map_err(|e| format!("diagnostics failed: {e}"))?;
    Ok((d.values().map(|v| v.len()).sum(), ok))
}

pub fn check_text(t: &str, family: &str, st: &mut Stats) -> Vec<Violation> {
    let mut out = Vec::new();
    let mut viol = |stage: &str, sig: String, detail: Value| {
        out.push(Violation::new(
            "a front end crashed or did not answer",
            json!({"signature": format!("C04 {stage}: {sig}"), "detail": detail}),
        ));
    };
    // tokenizer + parser
    match guard(|| oal_syntax::parse::<_, Core>(crate::oracle::syntax::loc(), t)) {
        Ok((tree, errs)) => {
            st.inc(if tree.is_some() && errs.is_empty() { "parse:ok" } else { "parse:errors" });
            if tree.is_none() && errs.is_empty() {
                viol("parse", "neither tree nor error".into(), Value::Null);
            }
        }
        Err(p) => viol("parse", format!("panic {}", p.signature()), json!(p.message)),
    }
    // playground entry point
    let mut accepted = false;
    let r = guard(|| oal_wasm::compile(t));
    // The playground entry point installs its own process-wide panic hook: put the recording hook back.
    crate::util::install_panic_hook();
    match r {
        Ok(r) => {
            let api = !r.api.is_empty();
            let err = !r.error.is_empty();
            st.inc(if api { "playground:api" } else { "playground:error" });
            accepted = api;
            if api == err {
                viol("playground", "not exactly one of api/error".into(), json!({"api": r.api.len(), "error": r.error.len()}));
            }
        }
        Err(p) => viol("playground", format!("panic {}", p.signature()), json!(p.message)),
    }
    // language server cycle
    match guard(|| lsp_cycle(t)) {
        Ok(Ok((ndiag, ok))) => {
            st.inc(if ok { "lsp:ok" } else { "lsp:diagnostics" });
            if !ok && ndiag == 0 {
                viol("lsp", "failed without a diagnostic".into(), Value::Null);
            }
        }
        Ok(Err(e)) => viol("lsp", "cycle returned an error".into(), json!(e)),
        Err(p) => viol("lsp", format!("panic {}", p.signature()), json!(p.message)),
    }
    if !accepted && t.len() > 2 {
        st.nontrivial(hash64(t));
        if family != "tok-full" && family != "tok-reduced" {
            st.sample(|| json!({"family": family, "text": crate::util::clip(t, 300)}));
        }
    }
    out
}

impl Workload for Crash {
    fn len(&self) -> u64 {
        self.plan.len()
    }
    fn case_json(&self, seed: u64, idx: u64) -> Value {
        let (texts, fam) = self.plan.texts(seed, idx);
        json!({"texts": texts, "family": fam})
    }
    fn run(&self, seed: u64, idx: u64, st: &mut Stats) -> Vec<Violation> {
        let (texts, fam) = self.plan.texts(seed, idx);
        st.inc(&format!("family:{fam}"));
        // the single-file entry points see the main file
        check_text(&texts[0], fam, st)
    }
    fn run_json(&self, case: &Value, st: &mut Stats) -> Vec<Violation> {
        let t = case["texts"][0].as_str().unwrap_or("").to_owned();
        check_text(&t, case["family"].as_str().unwrap_or("replay"), st)
    }
    fn chunk(&self) -> u64 {
        1000
    }
}

pub fn run(ctx: &Ctx) -> i32 {
    let mut acc = Acc::new(ctx);
    let wl = Crash {
        plan: TextPlan::new(ctx.quick()),
    };
    acc.pool(&wl, "c04", true);
    // multi-module programs: compile-stage crashes of the exploration workload (shared with C01)
    let ex = super::c04::LoadCrash {
        n: if ctx.quick() { 30_000 } else { 1_000_000 },
    };
    acc.pool(&ex, "c04load", true);
    acc.finish(
        "exploration",
        "texts: all token sequences of length <=3 over the 51-kind alphabet and <=5 (thorough 6) over a 12-kind alphabet behind three statement prefixes (exhaustive), 18 nesting families at depths up to 200 (valid, unbalanced, mixed), generated programs, token/byte mutants, corpus mutants, arbitrary Unicode with hostile YAML; each through oal_syntax::parse, oal_wasm::compile and the language server's open/load/eval/diagnostics cycle in a worker process (panics caught per entry point, aborts and hangs attributed by the pool); plus load+compile of multi-module exploration cases; non-trivial = a text of more than 2 bytes that is not accepted (the diagnostics path); distinct by text hash",
        2000,
        false,
        &["process-level slices (oal-cli, oal-lsp binaries) run in C13/C15 and in this check's thorough tier"],
        json!({}),
    )
}

/// Load/compile crash monitor over multi-module exploration cases (crashes before acceptance).
pub struct LoadCrash {
    pub n: u64,
}

fn check_load(src: &crate::drive::pipeline::Sources, st: &mut Stats) -> Vec<Violation> {
    match crate::drive::pipeline::load(src) {
        Ok(l) => {
            st.inc(if l.mods.is_some() { "load:accepted" } else { "load:rejected" });
            if l.mods.is_none() {
                st.nontrivial(hash64(&src.files));
            }
            vec![]
        }
        Err(p) => vec![Violation::new(
            "loading/compiling a module set panicked",
            json!({"signature": format!("C04 load: panic {}", p.signature()), "message": p.message, "sources": src.to_json()}),
        )],
    }
}

impl Workload for LoadCrash {
    fn len(&self) -> u64 {
        self.n
    }
    fn case_json(&self, seed: u64, idx: u64) -> Value {
        json!({"sources": super::explore::explore_case(seed, "explore", idx).sources.to_json()})
    }
    fn run(&self, seed: u64, idx: u64, st: &mut Stats) -> Vec<Violation> {
        check_load(&super::explore::explore_case(seed, "explore", idx).sources, st)
    }
    fn run_json(&self, case: &Value, st: &mut Stats) -> Vec<Violation> {
        check_load(&crate::drive::pipeline::Sources::from_json(&case["sources"]), st)
    }
    fn chunk(&self) -> u64 {
        300
    }
}
