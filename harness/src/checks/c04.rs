//! C04: any text is answered with a result or diagnostics, never a crash (in-process part:
//! tokenizer+parser, the playground entry point, the language server's load/evaluate cycle).

use super::texts::TextPlan;
use super::{Acc, Ctx};
use crate::pool::{Violation, Workload};
use crate::util::{guard, hash64, Stats};
use oal_compiler::tree::Core;
use serde_json::{json, Value};

pub struct Crash {
    pub plan: TextPlan,
}

fn lsp_cycle(t: &str) -> Result<(usize, bool), String> {
    use lsp_types::{DidOpenTextDocumentParams, TextDocumentItem};
    let mut ws = oal_client::lsp::Workspace::default();
    let uri = lsp_types::Url::parse("file:///ws-c04/main.oal").unwrap();
    // the locator of the document is computed here, not taken from what `open` returns
    let loc = oal_model::locator::Locator::from(uri.clone());
    if let Err(e) = ws.open(DidOpenTextDocumentParams {
        text_document: TextDocumentItem {
            uri,
            language_id: "oal".into(),
            version: 0,
            text: t.to_owned(),
        },
    }) {
        return Err(e.to_string());
    }
    let ok = match ws.load(&loc) {
        Ok(mods) => ws.eval(&mods).is_ok(),
        Err(_) => false,
    };
    let d = ws.diagnostics().map_err(|e| format!("diagnostics failed: {e}"))?;
    Ok((d.values().map(|v| v.len()).sum(), ok))
}

pub fn check_text(t: &str, family: &str, st: &mut Stats) -> Vec<Violation> {
    let mut out = Vec::new();
    let mut viol = |stage: &str, sig: String, detail: Value| {
        out.push(Violation::new(
            "a front end crashed or did not answer",
            json!({"signature": format!("C04 {stage}: {sig}"), "detail": detail}),
        ));
    };
    // tokenizer + parser
    match guard(|| oal_syntax::parse::<_, Core>(crate::oracle::syntax::loc(), t)) {
        Ok((tree, errs)) => {
            st.inc(if tree.is_some() && errs.is_empty() { "parse:ok" } else { "parse:errors" });
            if tree.is_none() && errs.is_empty() {
                viol("parse", "neither tree nor error".into(), Value::Null);
            }
        }
        Err(p) => viol("parse", format!("panic {}", p.signature()), json!(p.message)),
    }
    // playground entry point
    let mut accepted = false;
    let r = guard(|| oal_wasm::compile(t));
    // The playground entry point installs its own process-wide panic hook: put the recording hook back.
    crate::util::install_panic_hook();
    match r {
        Ok(r) => {
            let api = !r.api.is_empty();
            let err = !r.error.is_empty();
            st.inc(if api { "playground:api" } else { "playground:error" });
            accepted = api;
            if api == err {
                viol("playground", "not exactly one of api/error".into(), json!({"api": r.api.len(), "error": r.error.len()}));
            }
        }
        Err(p) => viol("playground", format!("panic {}", p.signature()), json!(p.message)),
    }
    // language server cycle
    match guard(|| lsp_cycle(t)) {
        Ok(Ok((ndiag, ok))) => {
            st.inc(if ok { "lsp:ok" } else { "lsp:diagnostics" });
            if !ok && ndiag == 0 {
                viol("lsp", "failed without a diagnostic".into(), Value::Null);
            }
        }
        Ok(Err(e)) => viol("lsp", "cycle returned an error".into(), json!(e)),
        Err(p) => viol("lsp", format!("panic {}", p.signature()), json!(p.message)),
    }
    if !accepted && t.len() > 2 {
        st.nontrivial(hash64(t));
        if family != "tok-full" && family != "tok-reduced" {
            st.sample(|| json!({"family": family, "text": crate::util::clip(t, 300)}));
        }
    }
    out
}

impl Workload for Crash {
    fn len(&self) -> u64 {
        self.plan.len()
    }
    fn case_json(&self, seed: u64, idx: u64) -> Value {
        let (texts, fam) = self.plan.texts(seed, idx);
        json!({"texts": texts, "family": fam})
    }
    fn run(&self, seed: u64, idx: u64, st: &mut Stats) -> Vec<Violation> {
        let (texts, fam) = self.plan.texts(seed, idx);
        st.inc(&format!("family:{fam}"));
        // the single-file entry points see the main file
        check_text(&texts[0], fam, st)
    }
    fn run_json(&self, case: &Value, st: &mut Stats) -> Vec<Violation> {
        let t = case["texts"][0].as_str().unwrap_or("").to_owned();
        check_text(&t, case["family"].as_str().unwrap_or("replay"), st)
    }
    fn chunk(&self) -> u64 {
        1000
    }
}

pub fn run(ctx: &Ctx) -> i32 {
    let mut acc = Acc::new(ctx);
    let wl = Crash {
        plan: TextPlan::new(ctx.quick()),
    };
    acc.pool(&wl, "c04", true);
    // multi-module programs: compile-stage crashes of the exploration workload (shared with C01)
    let ex = super::c04::LoadCrash {
        n: if ctx.quick() { 30_000 } else { 1_000_000 },
    };
    acc.pool(&ex, "c04load", true);
    // process-level slices: the real binaries
    let cli = CliTexts {
        n: if ctx.quick() { 600 } else { 20_000 },
    };
    acc.pool(&cli, "c04cli", true);
    let typing = LspTyping {
        n: if ctx.quick() { 48 } else { 1000 },
    };
    acc.pool(&typing, "c04lsp", true);
    acc.witnesses();
    if !ctx.quick() {
        acc.miri(40, 60);
        acc.asan(&["c04cli", "c04lsp"]);
        // valgrind memcheck on the release CLI (optimised code paths differ from the ASan dev build)
        {
            let _g = crate::drive::sanitize::BinaryOverride::wrapper("valgrind --error-exitcode=99 -q");
            if let Some(wl) = super::workload("c04cli-vg", &ctx.tier) {
                let r = acc.pool(wl.as_ref(), "c04cli-vg", true);
                acc.observed.insert("sanitizer_stage:memcheck".into(), json!({"cases": r.evaluations, "violations": r.violations.len()}));
            }
        }
    }
    acc.finish(
        "exploration",
        "texts: all token sequences of length <=3 over the 51-kind alphabet and <=5 (thorough 6) over a 12-kind alphabet behind three statement prefixes (exhaustive), 18 nesting families at depths up to 200 (valid, unbalanced, mixed), generated programs, token/byte mutants, corpus mutants, arbitrary Unicode with hostile YAML; each through oal_syntax::parse, oal_wasm::compile and the language server's open/load/eval/diagnostics cycle in a worker process (panics caught per entry point, aborts and hangs attributed by the pool); plus load+compile of multi-module exploration cases; non-trivial = a text of more than 2 bytes that is not accepted (the diagnostics path); distinct by text hash",
        2000,
        false,
        &["process-level slices: hostile texts through the real oal-cli, and oal-lsp sessions in which a program is typed character by character (incremental changes, requests in between) and hostile texts are pasted"],
        json!({}),
    )
}

/// Load/compile crash monitor over multi-module exploration cases (crashes before acceptance).
pub struct LoadCrash {
    pub n: u64,
}

fn check_load(src: &crate::drive::pipeline::Sources, st: &mut Stats) -> Vec<Violation> {
    match crate::drive::pipeline::load(src) {
        Ok(l) => {
            st.inc(if l.mods.is_some() { "load:accepted" } else { "load:rejected" });
            if l.mods.is_none() {
                st.nontrivial(hash64(&src.files));
            }
            vec![]
        }
        Err(p) => vec![Violation::new(
            "loading/compiling a module set panicked",
            json!({"signature": format!("C04 load: panic {}", p.signature()), "message": p.message, "sources": src.to_json()}),
        )],
    }
}

impl Workload for LoadCrash {
    fn len(&self) -> u64 {
        self.n
    }
    fn case_json(&self, seed: u64, idx: u64) -> Value {
        json!({"sources": super::explore::explore_case(seed, "explore", idx).sources.to_json()})
    }
    fn run(&self, seed: u64, idx: u64, st: &mut Stats) -> Vec<Violation> {
        check_load(&super::explore::explore_case(seed, "explore", idx).sources, st)
    }
    fn run_json(&self, case: &Value, st: &mut Stats) -> Vec<Violation> {
        check_load(&crate::drive::pipeline::Sources::from_json(&case["sources"]), st)
    }
    fn chunk(&self) -> u64 {
        300
    }
}

// ---------------------------------------------------------------------------------------------------
// Process-level slice: the real oal-cli and oal-lsp binaries on hostile texts.
// ---------------------------------------------------------------------------------------------------

use crate::drive::cli::{run_cli, TempDir};
use crate::drive::lsp::{file_uri, ClientDoc, Lsp, LspError};

pub struct CliTexts {
    pub n: u64,
}

fn hostile_text(seed: u64, idx: u64) -> (String, &'static str) {
    use crate::gen::tok::{nesting, NEST_DEPTHS};
    let mut rng = crate::util::Rng::for_case(seed, "c04proc", idx);
    match idx % 7 {
        6 => {
            // import strings with URL syntax in them; `module.oal` exists next to the main module
            const IMPORTS: [&str; 30] = [
                "module.oal#v1", "module.oal?x=1", "./module.oal#", "module.oal#a#b", "%6dodule.oal", "module.oal%23v1", "module.oal%00",
                "file:///etc/hostname", "http://example.com/module.oal", "../module.oal", "module.oal/", "", ".", "..", "/",
                "//module.oal", "\\module.oal", "mailto:x", "#", "?", "main.oal#self", "main.oal?again", "./main.oal", "x/../module.oal#y",
                "module.oal#é😉", "module .oal", "module.oal\t", "file:module.oal", "file://localhost/module.oal", "a/b/c/../../../module.oal#z",
            ];
            let a = *rng.pick(&IMPORTS);
            let b = *rng.pick(&IMPORTS);
            let t = match rng.below(4) {
                0 => format!("use \"{a}\" as m;\nres / on get -> <m.v>;\n"),
                1 => format!("use \"{a}\";\nres / on get -> <v>;\n"),
                2 => format!("use \"{a}\" as m;\nuse \"{b}\" as n;\nlet w = m.f n.v;\nres / on get -> <w>;\n"),
                _ => format!("use \"module.oal\" as m;\nuse \"{a}\" as m;\nres / on get -> <m.v>;\n"),
            };
            (t, "import-strings")
        }
        0 => {
            let fam = (idx / 7) as usize % 22;
            // deepest first: a short run reaches the bound of the property (200) in every family
            let d = NEST_DEPTHS[NEST_DEPTHS.len() - 1 - (idx / 154) as usize % NEST_DEPTHS.len()];
            (nesting(fam, d).unwrap_or_default(), "nesting")
        }
        1 => (crate::gen::mutate::random_text(&mut rng), "random"),
        2 | 3 => {
            let c = super::explore::explore_case(seed, "c04proc", idx);
            (c.sources.files[0].1.clone(), "program-or-mutant")
        }
        4 => {
            let c = super::explore::explore_case(seed, "c04proc", idx);
            (crate::gen::mutate::mutate_bytes(&c.sources.files[0].1, &mut rng), "byte-mutant")
        }
        _ => {
            let digits: String = (0..rng.range(1, 40)).map(|_| char::from(b'0' + rng.below(10) as u8)).collect();
            // literal path segments with complete, truncated and malformed percent escapes
            let seg = *rng.pick(&["a", "a%2", "%A", "50%", "%zz", "%", "%%", "caf%C3%A9", "%C3", "%2", "a%2/b", "%7Bx%7D", "%00", "x%"]);
            (
                format!("let a = {digits};\nres /{seg} on get -> <status={digits}, {{}}> `description: \"{}\"`;\nres concat /p/{seg} /{seg} on put -> <>;\n", rng.pick(&["é😉", "a: b", "\\", "[", "*x"])),
                "numbers-and-yaml",
            )
        }
    }
}

fn check_cli_text(t: &str, family: &str, st: &mut Stats) -> Vec<Violation> {
    let dir = TempDir::new("c04cli");
    std::fs::write(dir.path.join("main.oal"), t).unwrap();
    std::fs::write(dir.path.join("module.oal"), "let v = { 'a num };\nlet f x = { 'w x };\n").unwrap();
    let r = run_cli(&dir.path, "main.oal", "out.yaml", None);
    st.inc(&format!("cli:{family}:{}", if r.success() { "ok" } else { "failed" }));
    let mut out = Vec::new();
    let mut viol = |sig: String| {
        out.push(Violation::new(
            "oal-cli crashed, hung or did not answer on a text",
            json!({"signature": sig, "stderr": crate::util::clip(&r.stderr, 500), "text": crate::util::clip(t, 400)}),
        ));
    };
    if r.timed_out {
        viol("C04 cli: no answer within the watchdog".into());
    } else if r.signal.is_some() {
        viol(format!("C04 cli: killed by signal {:?}", r.signal));
    } else if !matches!(r.code, Some(0) | Some(1)) {
        viol(format!("C04 cli: exit code {:?}", r.code));
    } else if r.stderr.contains("panicked") || r.stderr.contains("overflowed its stack") || r.stderr.contains("AddressSanitizer") {
        viol("C04 cli: panic or sanitizer report on stderr".into());
    } else if !r.success() && r.stderr.trim().is_empty() {
        viol("C04 cli: failure without a diagnostic".into());
    }
    st.nontrivial(hash64(t));
    out
}

impl Workload for CliTexts {
    fn len(&self) -> u64 {
        self.n
    }
    fn case_json(&self, seed: u64, idx: u64) -> Value {
        let (t, f) = hostile_text(seed, idx);
        json!({"texts": [t], "family": f})
    }
    fn run(&self, seed: u64, idx: u64, st: &mut Stats) -> Vec<Violation> {
        let (t, f) = hostile_text(seed, idx);
        st.sample(|| json!({"family": f, "text": crate::util::clip(&t, 200)}));
        check_cli_text(&t, f, st)
    }
    fn run_json(&self, case: &Value, st: &mut Stats) -> Vec<Violation> {
        check_cli_text(case["texts"][0].as_str().unwrap_or(""), "replay", st)
    }
    fn chunk(&self) -> u64 {
        20
    }
}

/// Language-server sessions: a document typed character by character, then hostile texts pasted.
pub struct LspTyping {
    pub n: u64,
}

fn typing_session(seed: u64, idx: u64, st: &mut Stats) -> Vec<Violation> {
    let mut rng = crate::util::Rng::for_case(seed, "c04lsp", idx);
    let dir = TempDir::new("c04lsp");
    std::fs::write(dir.path.join("main.oal"), "res / on get -> {};\n").unwrap();
    std::fs::write(dir.path.join("module.oal"), "let v = { 'a num };\nlet f x = { 'w x };\n").unwrap();
    std::fs::write(dir.path.join("oal.toml"), "[api]\nmain = \"main.oal\"\ntarget = \"out.yaml\"\n").unwrap();
    let uri = file_uri(&dir.path.join("main.oal"));
    let fail = |e: LspError, what: &str, text: &str| -> Vec<Violation> {
        vec![Violation::new(
            "the language server died or stopped answering on a text",
            json!({"signature": format!("C04 lsp: server failure while {what}"), "error": crate::util::clip(&format!("{e:?}"), 500), "text": crate::util::clip(text, 400)}),
        )]
    };
    let mut lsp = match Lsp::start(&dir.path, None) {
        Ok(l) => l,
        Err(e) => return fail(e, "starting", ""),
    };
    // the program an editor user types
    let program = {
        let c = super::explore::explore_case(seed, "c04lspprog", idx * 20);
        c.sources.files[0].1.clone()
    };
    let program: String = program.chars().take(400).collect();
    let mut doc = ClientDoc::new("");
    if let Err(e) = lsp.did_open(&uri, "") {
        return fail(e, "opening", "");
    }
    let mut version = 0;
    for (k, ch) in program.chars().enumerate() {
        let end = doc.units.len();
        let p = doc.position_of(end);
        let s = ch.to_string();
        doc.replace(end, end, &s);
        version += 1;
        if let Err(e) = lsp.did_change(&uri, version, &[(Some([p, p]), s)]) {
            return fail(e, "typing", &doc.text());
        }
        st.inc("keystrokes");
        if k % 7 == 0 {
            let q = doc.position_of(rng.below(doc.units.len() + 1).min(doc.units.len()));
            let m = *rng.pick(&["textDocument/definition", "textDocument/references", "textDocument/prepareRename"]);
            // positions inside a surrogate pair are not sent
            if let Err(e) = lsp.position_request(m, &uri, q[0], q[1]) {
                return fail(e, "answering a request after a keystroke", &doc.text());
            }
            st.inc("requests_after_keystrokes");
        }
    }
    for j in 0..7 {
        let (t, _) = hostile_text(seed, idx * 7 + j);
        version += 1;
        if let Err(e) = lsp.did_change(&uri, version, &[(None, t.clone())]) {
            return fail(e, "pasting", &t);
        }
        if let Err(e) = lsp.position_request("textDocument/definition", &uri, 0, 0) {
            return fail(e, "answering a request after a paste", &t);
        }
        st.inc("pastes");
        if !lsp.alive() {
            return fail(LspError::Died(lsp.stderr_tail()), "after a paste", &t);
        }
    }
    st.add("jsonrpc_messages", (lsp.messages_sent + lsp.messages_received) as u64);
    st.nontrivial(hash64(&program));
    lsp.shutdown();
    vec![]
}

impl Workload for LspTyping {
    fn len(&self) -> u64 {
        self.n
    }
    fn case_json(&self, seed: u64, idx: u64) -> Value {
        json!({"seed": seed, "index": idx})
    }
    fn run(&self, seed: u64, idx: u64, st: &mut Stats) -> Vec<Violation> {
        typing_session(seed, idx, st)
    }
    fn run_json(&self, case: &Value, st: &mut Stats) -> Vec<Violation> {
        typing_session(case["seed"].as_u64().unwrap_or(1), case["index"].as_u64().unwrap_or(0), st)
    }
    fn chunk(&self) -> u64 {
        2
    }
    fn case_timeout_s(&self) -> u64 {
        300
    }
}
