//! Text workloads shared by C04, C11 and C12.

use super::explore::explore_case;
use crate::gen::mutate::random_text;
use crate::gen::tok::*;
use crate::util::Rng;

pub struct TextPlan {
    pub full_len: u32,
    pub reduced_len: u32,
    pub reduced2_len: u32,
    pub explore: u64,
    pub random: u64,
}

impl TextPlan {
    pub fn new(quick: bool) -> Self {
        if quick {
            TextPlan {
                full_len: 3,
                reduced_len: 5,
                reduced2_len: 6,
                explore: 40_000,
                random: 40_000,
            }
        } else {
            TextPlan {
                full_len: 3,
                reduced_len: 6,
                reduced2_len: 7,
                explore: 1_000_000,
                random: 2_000_000,
            }
        }
    }
    fn n_full(&self) -> u64 {
        count(FULL.len() as u64, self.full_len) * PREFIXES.len() as u64
    }
    fn n_reduced(&self) -> u64 {
        count(REDUCED.len() as u64, self.reduced_len) * PREFIXES.len() as u64
    }
    fn n_reduced2(&self) -> u64 {
        count(REDUCED2.len() as u64, self.reduced2_len)
    }
    fn n_nest(&self) -> u64 {
        (22 * NEST_DEPTHS.len()) as u64
    }
    pub fn len(&self) -> u64 {
        self.n_full() + self.n_reduced() + self.n_reduced2() + self.n_nest() + self.explore + self.random
    }
    /// Texts of case idx (one or several files) and the family they come from.
    pub fn texts(&self, seed: u64, idx: u64) -> (Vec<String>, &'static str) {
        let mut i = idx;
        if i < self.n_full() {
            let p = PREFIXES[(i % 3) as usize];
            return (vec![format!("{p}{}", sequence(&FULL, i / 3))], "tok-full");
        }
        i -= self.n_full();
        if i < self.n_reduced() {
            let p = PREFIXES[(i % 3) as usize];
            return (vec![format!("{p}{}", sequence(&REDUCED, i / 3))], "tok-reduced");
        }
        i -= self.n_reduced();
        if i < self.n_reduced2() {
            return (vec![format!("{PREFIX2}{}", sequence(&REDUCED2, i))], "tok-reduced2");
        }
        i -= self.n_reduced2();
        if i < self.n_nest() {
            let fam = i as usize / NEST_DEPTHS.len();
            let d = NEST_DEPTHS[i as usize % NEST_DEPTHS.len()];
            return (vec![nesting(fam, d).unwrap_or_default()], "nesting");
        }
        i -= self.n_nest();
        if i < self.explore {
            let c = explore_case(seed, "texts", i);
            return (c.sources.files.into_iter().map(|(_, t)| t).collect(), "program");
        }
        i -= self.explore;
        let mut rng = Rng::for_case(seed, "random-text", i);
        (vec![random_text(&mut rng)], "random")
    }
}
