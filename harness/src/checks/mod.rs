//! Check driver: runs workloads, files violations, applies the known-findings file, writes evidence.

use crate::pool::{run_pool, summarize, PoolResult, Violation, Workload};
use crate::util::{clip, verif_root, Stats};
use serde_json::{json, Map, Value};
use std::path::PathBuf;
use std::time::Instant;

pub mod c01;
pub mod c02;
pub mod c03;
pub mod c04;
pub mod c11;
pub mod c12;
pub mod texts;
pub mod witness;
pub mod explore;
pub mod miri;
pub mod c05;
pub mod c06;
pub mod c07;
pub mod c08;
pub mod c09;
pub mod c10;
pub mod c13;
pub mod c14;
pub mod c15;
pub mod c16;
pub mod c17;
pub mod c18;
pub mod common;

pub struct Ctx {
    pub id: String,
    pub tier: String,
    pub seed: u64,
    pub scratch: PathBuf,
}

impl Ctx {
    pub fn quick(&self) -> bool {
        self.tier == "quick"
    }
}

/// A violation found by a check, with its stable signature.
pub struct Found {
    pub signature: String,
    pub what: String,
    pub replay: PathBuf,
}

pub struct Acc<'a> {
    pub ctx: &'a Ctx,
    pub t0: Instant,
    pub found: Vec<Found>,
    pub inconclusive: Vec<String>,
    pub notes: Vec<String>,
    pub stats: Stats,
    pub evaluations: u64,
    pub observed: Map<String, Value>,
    pub known_seen: Vec<String>,
    known: Vec<KnownFinding>,
    replay_seq: usize,
}

#[derive(Clone, Debug)]
pub struct KnownFinding {
    pub property: String,
    pub key: String,
    pub signature: String,
    pub prose: String,
}

/// Parses KNOWN_FINDINGS.txt; only `open:` lines suppress anything.
pub fn load_known(property: &str) -> Vec<KnownFinding> {
    let path = verif_root().join("KNOWN_FINDINGS.txt");
    let text = std::fs::read_to_string(path).unwrap_or_default();
    let mut out = Vec::new();
    for line in text.lines() {
        let line = line.trim();
        let Some(rest) = line.strip_prefix("open:") else { continue };
        let (fields, prose) = match rest.split_once("::") {
            Some((f, p)) => (f, p.trim().to_owned()),
            None => (rest, String::new()),
        };
        let mut prop = String::new();
        let mut key = String::new();
        let mut sig = String::new();
        // fields: property=Cxx key=<k> signature=<text up to end>
        let fields = fields.trim();
        if let Some(i) = fields.find("signature=") {
            sig = fields[i + "signature=".len()..].trim().to_owned();
            for tok in fields[..i].split_whitespace() {
                if let Some(v) = tok.strip_prefix("property=") {
                    prop = v.to_owned();
                } else if let Some(v) = tok.strip_prefix("key=") {
                    key = v.to_owned();
                }
            }
        }
        if prop == property && !sig.is_empty() {
            out.push(KnownFinding {
                property: prop,
                key,
                signature: sig,
                prose,
            });
        }
    }
    out
}

impl<'a> Acc<'a> {
    pub fn new(ctx: &'a Ctx) -> Self {
        Acc {
            ctx,
            t0: Instant::now(),
            found: Vec::new(),
            inconclusive: Vec::new(),
            notes: Vec::new(),
            stats: Stats::new(),
            evaluations: 0,
            observed: Map::new(),
            known_seen: Vec::new(),
            known: load_known(&ctx.id),
            replay_seq: 0,
        }
    }

    pub fn known(&self) -> &[KnownFinding] {
        &self.known
    }

    fn replay_dir(&mut self, tag: &str) -> PathBuf {
        self.replay_seq += 1;
        let d = std::env::var("OALV_REPLAYS").map(PathBuf::from).unwrap_or_else(|_| verif_root().join("replays")).join(format!(
            "{}-{}-s{}-{}-{}",
            self.ctx.id, self.ctx.tier, self.ctx.seed, tag, self.replay_seq
        ));
        let _ = std::fs::create_dir_all(&d);
        d
    }

    /// Files one violation: known finding (by exact signature) or new violation with a replay directory.
    pub fn violation(&mut self, signature: &str, what: &str, case: &Value, detail: &Value, workload: &str) {
        if let Some(k) = self.known.iter().find(|k| k.signature == signature) {
            let line = format!("property={} {} [{}]", self.ctx.id, k.signature, k.key);
            if !self.known_seen.contains(&line) {
                self.known_seen.push(line);
            }
            return;
        }
        // Deduplicate by signature: keep the first witness, count the rest.
        if self.found.iter().any(|f| f.signature == signature) {
            self.stats.inc(&format!("dup_violation:{}", clip(signature, 80)));
            return;
        }
        let dir = self.replay_dir(&workload.replace([':', '/'], "_"));
        let meta = json!({
            "property": self.ctx.id,
            "workload": workload,
            "tier": self.ctx.tier,
            "seed": self.ctx.seed,
            "signature": signature,
            "what": what,
            "case": case,
            "detail": detail,
        });
        let _ = std::fs::write(dir.join("replay.json"), serde_json::to_string_pretty(&meta).unwrap());
        self.found.push(Found {
            signature: signature.to_owned(),
            what: what.to_owned(),
            replay: dir,
        });
    }

    /// Runs a workload in the pool and files its results. `abort_is_violation`: whether a child abort
    /// (signal, stack overflow) or confirmed hang on a case violates this property; otherwise it is inconclusive.
    pub fn pool(&mut self, wl: &dyn Workload, workload: &str, abort_is_violation: bool) -> PoolResult {
        let r = run_pool(wl, workload, &self.ctx.tier, self.ctx.seed, &self.ctx.scratch);
        self.stats.merge(&r.stats);
        self.evaluations += r.evaluations;
        for (idx, v) in &r.violations {
            let case = wl.case_json(self.ctx.seed, *idx);
            let sig = v
                .detail
                .get("signature")
                .and_then(Value::as_str)
                .map(|s| s.to_owned())
                .unwrap_or_else(|| v.kind.clone());
            self.violation(&sig, &v.kind, &case, &v.detail, workload);
        }
        for c in &r.crashes {
            let case = wl.case_json(self.ctx.seed, c.idx);
            let first = c
                .stderr_tail
                .lines()
                .find(|l| l.contains("overflowed its stack") || l.contains("panicked") || l.contains("ERROR"))
                .unwrap_or("")
                .to_owned();
            // Strip thread ids ("(12345)") so that the signature is stable.
            let mut norm = String::new();
            let mut depth = 0;
            for ch in first.chars() {
                match ch {
                    '(' => depth += 1,
                    ')' => {
                        if depth > 0 {
                            depth -= 1
                        }
                    }
                    c if depth == 0 => norm.push(c),
                    _ => {}
                }
            }
            let sig = format!("abort: {} {}", c.status, clip(norm.trim(), 100));
            if abort_is_violation {
                self.violation(
                    &sig,
                    "child process aborted on this case",
                    &case,
                    &json!({"status": c.status, "stderr": c.stderr_tail}),
                    workload,
                );
            } else {
                self.inconclusive
                    .push(format!("{workload}: worker died on case {} ({}): {}", c.idx, c.status, first));
            }
        }
        for idx in &r.hangs {
            let case = wl.case_json(self.ctx.seed, *idx);
            if abort_is_violation {
                self.violation(
                    "hang: case did not finish within the isolated watchdog",
                    "case did not terminate (watchdog fired twice, second time in isolation with 10x limit)",
                    &case,
                    &json!({"case_timeout_s": wl.case_timeout_s()}),
                    workload,
                );
            } else {
                self.inconclusive.push(format!("{workload}: case {idx} did not finish"));
            }
        }
        if r.budget_exceeded {
            self.inconclusive.push(format!(
                "{workload}: wall-clock budget used up after {} of {} cases ({} not run); the cases are much slower than on the reference tree",
                r.evaluations,
                wl.len(),
                r.dropped_after_limit
            ));
        } else if r.dropped_after_limit > 0 && r.hangs.is_empty() && r.crashes.is_empty() {
            self.inconclusive.push(format!(
                "{workload}: {} cases were not run after {} watchdog suspects that finished in isolation",
                r.dropped_after_limit,
                r.slow_cases.len()
            ));
        }
        for e in &r.harness_errors {
            self.inconclusive.push(format!("{workload}: {e}"));
        }
        self.observed.insert(format!("pool:{workload}"), summarize(&r));
        r
    }

    /// Replays the witnesses of the findings recorded for this property (in a worker process).
    pub fn witnesses(&mut self) {
        let wl = witness::Witnesses { check: self.ctx.id.clone() };
        if crate::pool::Workload::len(&wl) > 0 {
            let name = format!("witness:{}", self.ctx.id);
            let evals = self.evaluations;
            self.pool(&wl, &name, true);
            // witnesses are not part of the exploration counts
            self.evaluations = evals;
        }
    }

    /// Sanitizer stage: re-runs process-level workloads against an AddressSanitizer build of the binaries.
    pub fn asan(&mut self, workloads: &[&str]) {
        use crate::drive::sanitize::{asan_binaries, BinaryOverride};
        match asan_binaries() {
            Err(e) => self.notes.push(format!("ASan stage inconclusive (tool failure, no verdict): {}", clip(&e, 300))),
            Ok((cli, lsp)) => {
                let _g = BinaryOverride::asan(&cli, &lsp);
                for w in workloads {
                    let name = format!("{w}-asan");
                    if let Some(wl) = workload(&name, &self.ctx.tier) {
                        let evals = self.evaluations;
                        let r = self.pool(wl.as_ref(), &name, true);
                        self.observed.insert(format!("sanitizer_stage:asan:{w}"), json!({"cases": r.evaluations, "violations": r.violations.len(), "crashes": r.crashes.len()}));
                        self.evaluations = evals + r.evaluations;
                    }
                }
            }
        }
    }

    /// Sanitizer stage: cases [lo, hi) of the tiny Miri workload under `cargo +nightly miri run`.
    /// Undefined behaviour reported by the interpreter is a violation; a tool failure makes the stage
    /// (not the check) inconclusive.
    pub fn miri(&mut self, lo: u64, hi: u64) {
        use crate::drive::sanitize::{miri_json, miri_stage};
        // the stage interprets cases lo..hi in 16 shards; `direct` takes absolute indices
        let n = hi - lo;
        let r = {
            // shards over [lo, hi): run as one stage per contiguous block
            let mut total = crate::drive::sanitize::MiriResult::default();
            let shards = 16u64.min(n.max(1));
            let per = n.div_ceil(shards);
            // miri_stage shards [0, n); emulate an offset by running it on sub-ranges through a closure
            let r = miri_stage_range("miri", &self.ctx.tier, self.ctx.seed, lo, hi, per);
            total.cases = r.cases;
            total.reports = r.reports;
            total.violations = r.violations;
            total.tool_failure = r.tool_failure;
            total.wall_s = r.wall_s;
            total
        };
        self.observed.insert("sanitizer_stage:miri".into(), miri_json(&r));
        if let Some(f) = &r.tool_failure {
            self.notes.push(format!("Miri stage inconclusive (tool failure, no verdict): {}", clip(f, 300)));
        }
        for (range, kind, excerpt) in &r.reports {
            if kind == "undefined-behaviour" {
                let first = excerpt.lines().next().unwrap_or("").to_owned();
                self.violation(
                    &format!("Miri: {}", clip(&first, 120)),
                    "the interpreter reported undefined behaviour while running the pipeline",
                    &json!({"workload": "miri", "cases": range}),
                    &json!({"report": excerpt}),
                    "miri",
                );
            } else {
                self.notes.push(format!("Miri stage: cases {range}: {kind} (no verdict)"));
            }
        }
        for (idx, kind, detail) in &r.violations {
            let sig = detail.get("signature").and_then(Value::as_str).unwrap_or(kind).to_owned();
            self.violation(&sig, kind, &json!({"workload": "miri", "index": idx}), detail, "miri");
        }
        let _ = miri_stage;
    }

    /// Writes the evidence file, prints the verdict lines and returns the exit code.
    #[allow(clippy::too_many_arguments)]
    pub fn finish(
        mut self,
        level: &str,
        rule: &str,
        min_distinct: u64,
        exhaustive: bool,
        assumptions: &[&str],
        extra_coverage: Value,
    ) -> i32 {
        let distinct = self.stats.distinct();
        if distinct < min_distinct {
            self.inconclusive.push(format!(
                "observed only {distinct} distinct non-trivial cases, minimum is {min_distinct}"
            ));
        }
        let mut coverage = Map::new();
        coverage.insert("evaluations".into(), json!(self.evaluations));
        coverage.insert("distinct_nontrivial".into(), json!(distinct));
        coverage.insert("nontrivial_total".into(), json!(self.stats.get("nontrivial")));
        coverage.insert("rule".into(), json!(rule));
        let mut samples = self.stats.samples.clone();
        samples.truncate(6);
        if samples.is_empty() {
            samples.push(json!("(no sample recorded)"));
        }
        coverage.insert("samples".into(), Value::Array(samples));
        coverage.insert("exhaustive".into(), json!(exhaustive));
        let mut observed = self.observed.clone();
        observed.insert("counters".into(), json!(self.stats.counters));
        observed.insert("maxima".into(), json!(self.stats.maxes));
        observed.insert("known_findings_reobserved".into(), json!(self.known_seen));
        observed.insert("inconclusive".into(), json!(self.inconclusive));
        observed.insert("notes".into(), json!(self.notes));
        observed.insert(
            "verdict".into(),
            json!(if !self.found.is_empty() {
                "violated"
            } else if !self.inconclusive.is_empty() {
                "inconclusive"
            } else {
                "held on what was observed"
            }),
        );
        coverage.insert("observed".into(), Value::Object(observed));
        if let Value::Object(m) = extra_coverage {
            for (k, v) in m {
                coverage.insert(k, v);
            }
        }
        let ev = json!({
            "property_id": self.ctx.id,
            "tier": self.ctx.tier,
            "seed": self.ctx.seed,
            "level": level,
            "coverage": coverage,
            "assumptions": assumptions,
            "wall_s": self.t0.elapsed().as_secs_f64(),
            "violations": self.found.len(),
        });
        // OALV_EVIDENCE: evidence of runs against a mutated scratch copy must not overwrite the real one.
        let evdir = std::env::var("OALV_EVIDENCE").map(PathBuf::from).unwrap_or_else(|_| verif_root().join("evidence"));
        let _ = std::fs::create_dir_all(&evdir);
        let path = evdir.join(format!("{}.json", self.ctx.id));
        if let Err(e) = std::fs::write(&path, serde_json::to_string_pretty(&ev).unwrap()) {
            eprintln!("cannot write evidence {}: {e}", path.display());
        }
        for k in &self.known_seen {
            println!("KNOWN-FINDING: {k}");
        }
        for n in &self.notes {
            println!("note: {n}");
        }
        println!(
            "{} {}: {} evaluations, {} distinct non-trivial, {} violation(s), {} inconclusive item(s), {:.1}s",
            self.ctx.id,
            self.ctx.tier,
            self.evaluations,
            distinct,
            self.found.len(),
            self.inconclusive.len(),
            self.t0.elapsed().as_secs_f64()
        );
        if !self.found.is_empty() {
            for f in &self.found {
                println!("  what: {} :: {}", clip(&f.signature, 160), clip(&f.what, 200));
                println!("VIOLATION property={} replay={}", self.ctx.id, f.replay.display());
            }
            return 1;
        }
        if !self.inconclusive.is_empty() {
            for i in &self.inconclusive {
                println!("INCONCLUSIVE: {}", clip(i, 300));
            }
            return 2;
        }
        0
    }
}

fn miri_stage_range(workload: &str, tier: &str, seed: u64, lo: u64, hi: u64, per: u64) -> crate::drive::sanitize::MiriResult {
    crate::drive::sanitize::miri_stage_offset(workload, tier, seed, lo, hi, per, 1800)
}

/// Registry of workloads by name (used by both coordinator and workers).
pub fn workload(name: &str, tier: &str) -> Option<Box<dyn Workload>> {
    let quick = tier == "quick";
    if let Some(c) = name.strip_prefix("witness:") {
        return Some(Box::new(witness::Witnesses { check: c.to_owned() }));
    }
    // sanitizer-stage variants of process-level workloads: same cases, smaller count
    let (name, stage) = match name.rsplit_once('-') {
        Some((b, st @ ("asan" | "vg" | "strace"))) => (b, Some(st)),
        _ => (name, None),
    };
    if let Some(st) = stage {
        return match (name, st) {
            ("c04cli", "asan") => Some(Box::new(c04::CliTexts { n: 2000 })),
            ("c04cli", "vg") => Some(Box::new(c04::CliTexts { n: 120 })),
            ("c04lsp", "asan") => Some(Box::new(c04::LspTyping { n: 100 })),
            ("c13", "asan") => Some(Box::new(c13::Workspaces { n: 500 })),
            ("c13", "strace") => Some(Box::new(c13::Workspaces { n: 500 })),
            ("c15", "asan") => Some(Box::new(c15::Histories { n: 300, max_steps: 40, located_only: None })),
            ("c18", "asan") => Some(Box::new(c18::Renames { n: 100 })),
            _ => None,
        };
    }
    match name {
        "c16" => Some(Box::new(c16::Positions::new(quick))),
        "c01rec" => Some(Box::new(c01::RecGraphs { n: if quick { 10_000 } else { 300_000 } })),
        "c10deep" => Some(Box::new(c10::Deep { n: std::env::var("OALV_DEEP_N").ok().and_then(|v| v.parse().ok()).unwrap_or(if quick { 60_000 } else { 150_000 }) })),
        "c16nav" => Some(Box::new(c16::LspRanges { n: if quick { 100 } else { 3000 } })),
        "miri" => Some(Box::new(miri::MiriCases)),
        "c13" => Some(Box::new(c13::Workspaces {
            n: if quick { 1500 } else { 12_000 },
        })),
        "c17" => Some(Box::new(c17::Navigation {
            n: if quick { 320 } else { 10_000 },
            stride: 1,
        })),
        "c18" => Some(Box::new(c18::Renames {
            n: if quick { 400 } else { 10_000 },
        })),
        "c15" => Some(Box::new(c15::Histories {
            n: if quick { 1000 } else { 20_000 },
            max_steps: if quick { 25 } else { 60 },
            located_only: None,
        })),
        "c15loc-c10" | "c15loc-c11" | "c15loc-c13" | "c15loc-c16" => Some(Box::new(c15::Histories {
            n: if quick { 400 } else { 8000 },
            max_steps: if quick { 25 } else { 60 },
            located_only: Some(match name {
                "c15loc-c10" => "C10",
                "c15loc-c11" => "C11",
                "c15loc-c13" => "C13",
                _ => "C16",
            }),
        })),
        "c14" => Some(Box::new(c14::Bases {
            n: if quick { 10_000 } else { 100_000 },
            cli_every: if quick { 25 } else { 100 },
        })),
        "explore" => Some(Box::new(c01::Explore {
            n: if quick { 100_000 } else { 3_000_000 },
        })),
        "c01depth" => Some(Box::new(c01::Depth)),
        "c03" => Some(Box::new(c03::Docs {
            n: if quick { 100_000 } else { 3_000_000 },
        })),
        "c03base" => Some(Box::new(c03::WithBase {
            n: if quick { 2000 } else { 50_000 },
        })),
        "c03ids" => Some(Box::new(c03::NearIds {
            n: if quick { 3000 } else { 100_000 },
        })),
        "c03cli" => Some(Box::new(c03::CliTargets {
            n: if quick { 150 } else { 3000 },
        })),
        "c04" => Some(Box::new(c04::Crash {
            plan: texts::TextPlan::new(quick),
        })),
        "c04cli" => Some(Box::new(c04::CliTexts {
            n: if quick { 600 } else { 20_000 },
        })),
        "c04lsp" => Some(Box::new(c04::LspTyping {
            n: if quick { 48 } else { 1000 },
        })),
        "c04load" => Some(Box::new(c04::LoadCrash {
            n: if quick { 30_000 } else { 1_000_000 },
        })),
        "c05corpus" => Some(Box::new(c05::CorpusTrivia {
            variants: if quick { 8 } else { 200 },
        })),
        "c05corpusrw" => Some(Box::new(c05::CorpusRewrites {
            variants: if quick { 16 } else { 400 },
        })),
        "c05" => Some(Box::new(c05::Rewrites {
            n: if quick { 12_000 } else { 300_000 },
        })),
        "c06proc" => Some(Box::new(c06::Processes {
            n: if quick { 600 } else { 5000 },
            runs: if quick { 8 } else { 32 },
        })),
        "c06inproc" => Some(Box::new(c06::InProcess {
            n: if quick { 10_000 } else { 300_000 },
        })),
        "c07unify" => Some(Box::new(c07::Unify::new(quick))),
        "c07inv" => Some(Box::new(c07::Invariance {
            n: if quick { 10_000 } else { 500_000 },
        })),
        "c07kinds" => Some(Box::new(c07::KindTable {
            variants: if quick { 3 } else { 40 },
        })),
        "c07agree" => Some(Box::new(c07::Agreement {
            n: if quick { 9600 } else { 480_000 },
        })),
        "c09" => Some(Box::new(c09::Recursion {
            n: if quick { 20_000 } else { 1_000_000 },
        })),
        "c10" => Some(Box::new(c10::Loads::new(quick))),
        "c11" => Some(Box::new(c11::Texts {
            plan: texts::TextPlan::new(quick),
        })),
        "c11err" => Some(Box::new(c11::ErrSpans {
            n: if quick { 20_000 } else { 500_000 },
        })),
        "c12" => Some(Box::new(c12::Memo {
            plan: texts::TextPlan::new(quick),
        })),
        "c12growth" => Some(Box::new(c12::Growth)),
        "c08" => Some(Box::new(c08::Binding {
            n: if quick { 25_000 } else { 1_000_000 },
        })),
        "c02" => Some(Box::new(c02::Wt {
            n: if quick { 30_000 } else { 2_000_000 },
            cfg: c02::wt_cfg(),
        })),
        _ => None,
    }
}

pub fn run_check(ctx: &Ctx) -> i32 {
    match ctx.id.as_str() {
        "C16" => c16::run(ctx),
        "C13" => c13::run(ctx),
        "C14" => c14::run(ctx),
        "C15" => c15::run(ctx),
        "C17" => c17::run(ctx),
        "C18" => c18::run(ctx),
        "C01" => c01::run(ctx),
        "C02" => c02::run(ctx),
        "C03" => c03::run(ctx),
        "C04" => c04::run(ctx),
        "C05" => c05::run(ctx),
        "C06" => c06::run(ctx),
        "C07" => c07::run(ctx),
        "C08" => c08::run(ctx),
        "C09" => c09::run(ctx),
        "C10" => c10::run(ctx),
        "C11" => c11::run(ctx),
        "C12" => c12::run(ctx),
        other => {
            println!("unknown check {other}");
            2
        }
    }
}

/// Re-runs a recorded case. Returns 1 (and prints what fails) if it still violates.
pub fn replay(path: &std::path::Path) -> i32 {
    let file = if path.is_dir() { path.join("replay.json") } else { path.to_owned() };
    let Ok(text) = std::fs::read_to_string(&file) else {
        println!("cannot read {}", file.display());
        return 2;
    };
    let Ok(meta) = serde_json::from_str::<Value>(&text) else {
        println!("not JSON: {}", file.display());
        return 2;
    };
    let wl_name = meta["workload"].as_str().unwrap_or("");
    let tier = meta["tier"].as_str().unwrap_or("quick");
    let Some(wl) = workload(wl_name, tier) else {
        println!("unknown workload {wl_name}");
        return 2;
    };
    let mut st = Stats::new();
    let vs: Vec<Violation> = wl.run_json(&meta["case"], &mut st);
    if vs.is_empty() {
        println!("replay: case passes");
        0
    } else {
        for v in &vs {
            println!("replay: {} {}", v.kind, clip(&v.detail.to_string(), 2000));
        }
        println!(
            "VIOLATION property={} replay={}",
            meta["property"].as_str().unwrap_or("?"),
            file.display()
        );
        1
    }
}
