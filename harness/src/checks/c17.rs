//! C17: go-to-definition and find-references mirror the compiler's binding relation (real oal-lsp).

use super::common::*;
use super::{Acc, Ctx};
use crate::drive::cli::{write_sources, TempDir};
use crate::drive::lsp::{file_uri, ClientDoc, Lsp, LspError};
use crate::gen::ast::*;
use crate::gen::print::{PrintedModule, Role};
use crate::gen::wt::Cfg;
use crate::pool::{Violation, Workload};
use crate::util::{hash64, Stats};
use serde_json::{json, Value};
use std::path::Path;

pub struct Navigation {
    pub n: u64,
    /// check every k-th position (1 = full sweep)
    pub stride: usize,
}

pub fn cfg() -> Cfg {
    Cfg {
        pool: 6,
        max_decls: 5,
        depth: 3,
        // four modules: lib/b.oal imports its sibling lib/c.oal by a path relative to itself
        max_modules: 4,
        shadow_pct: 15,
        // every case: rec binders named like something the statement uses in front of them
        rec_shadow_every: 1,
        ..Cfg::default()
    }
}

type Loc = (String, [u32; 2], [u32; 2]);

fn loc_of(v: &Value) -> Option<Loc> {
    Some((
        v.get("uri")?.as_str()?.to_owned(),
        [v["range"]["start"]["line"].as_u64()? as u32, v["range"]["start"]["character"].as_u64()? as u32],
        [v["range"]["end"]["line"].as_u64()? as u32, v["range"]["end"]["character"].as_u64()? as u32],
    ))
}

fn locs_of(v: &Value) -> Vec<Loc> {
    match v {
        Value::Array(a) => a.iter().filter_map(loc_of).collect(),
        Value::Object(_) => loc_of(v).into_iter().collect(),
        _ => vec![],
    }
}

pub struct WsInfo<'a> {
    pub dir: &'a Path,
    pub prog: &'a Program,
    pub printed: &'a [PrintedModule],
    pub docs: Vec<ClientDoc>,
}

impl<'a> WsInfo<'a> {
    pub fn new(dir: &'a Path, prog: &'a Program, printed: &'a [PrintedModule]) -> Self {
        WsInfo {
            dir,
            prog,
            printed,
            docs: printed.iter().map(|m| ClientDoc::new(&m.text)).collect(),
        }
    }
    pub fn uri(&self, m: usize) -> String {
        file_uri(&self.dir.join(&self.printed[m].file))
    }
    pub fn range_loc(&self, m: usize, r: &std::ops::Range<usize>) -> Loc {
        let t = &self.printed[m].text;
        (
            self.uri(m),
            self.docs[m].position_of_byte(t, r.start),
            self.docs[m].position_of_byte(t, r.end),
        )
    }
    /// Location of the binding construct of a target: whole declaration, or the binder token.
    pub fn binder_loc(&self, t: &Target, use_module: usize) -> Option<Loc> {
        match t {
            Target::Builtin(_) => None,
            Target::Decl(d) => {
                let m = self.prog.decls[*d].module;
                let r = self.printed[m].decl_ranges.iter().find(|(id, _)| id == d).map(|(_, r)| r.clone())?;
                Some(self.range_loc(m, &r))
            }
            Target::Param(d, i) => {
                let m = self.prog.decls[*d].module;
                let r = self.printed[m].occs.iter().find(|o| o.role == Role::ParamBinder(*d, *i)).map(|o| o.range.clone())?;
                Some(self.range_loc(m, &r))
            }
            Target::Rec(id) => {
                let r = self.printed[use_module]
                    .occs
                    .iter()
                    .find(|o| o.role == Role::RecBinder(*id))
                    .map(|o| o.range.clone())?;
                Some(self.range_loc(use_module, &r))
            }
        }
    }
    /// Name-token locations of all uses bound to `t`.
    pub fn uses_of(&self, t: &Target, use_module: usize) -> Vec<Loc> {
        let mut out = Vec::new();
        for (m, pm) in self.printed.iter().enumerate() {
            if matches!(t, Target::Rec(_)) && m != use_module {
                continue;
            }
            for o in &pm.occs {
                if o.role == Role::Use(t.clone()) {
                    out.push(self.range_loc(m, &o.range));
                }
            }
        }
        out.sort();
        out
    }
}

enum Zone<'a> {
    /// strictly inside the name token of a use
    Use(&'a Target),
    /// qualifier, dot, blanks before the name, or the position right after an identifier
    Lenient(Option<&'a Target>),
    /// strictly inside a declaration's name token
    DeclName(DeclId),
    /// other binder tokens (parameter, rec binder, import qualifier)
    Binder(Option<Target>),
    Nothing,
}

fn zone<'a>(pm: &'a PrintedModule, o: usize) -> Zone<'a> {
    // a position inside a token belongs to that token, even if it is also the position right after the previous one
    // (tokens may touch: `wrap@item`)
    for pass in 0..2 {
        if let Some(z) = zone_pass(pm, o, pass == 0) {
            return z;
        }
    }
    Zone::Nothing
}

fn zone_pass<'a>(pm: &'a PrintedModule, o: usize, strict: bool) -> Option<Zone<'a>> {
    for occ in &pm.occs {
        let inside = strict && occ.range.start <= o && o < occ.range.end;
        let after = !strict && o == occ.range.end;
        match &occ.role {
            Role::Use(t) => {
                if inside {
                    return Some(Zone::Use(t));
                }
                if after {
                    return Some(Zone::Lenient(Some(t)));
                }
                if let Some(q) = &occ.qual {
                    if !strict && q.start <= o && o < occ.range.start {
                        return Some(Zone::Lenient(Some(t)));
                    }
                }
            }
            Role::DeclName(d) => {
                if inside {
                    return Some(Zone::DeclName(*d));
                }
                if after {
                    return Some(Zone::Lenient(None));
                }
            }
            Role::ParamBinder(d, i) => {
                if inside || after {
                    return Some(Zone::Binder(Some(Target::Param(*d, *i))));
                }
            }
            Role::RecBinder(id) => {
                if inside || after {
                    return Some(Zone::Binder(Some(Target::Rec(*id))));
                }
            }
            Role::ImportQual(..) => {
                if inside || after {
                    return Some(Zone::Binder(None));
                }
            }
        }
    }
    None
}

fn sweep(info: &WsInfo, lsp: &mut Lsp, stride: usize, phase: usize, st: &mut Stats) -> Result<Vec<Violation>, LspError> {
    let mut out: Vec<Violation> = Vec::new();
    let mut counter = 0usize;
    for (m, pm) in info.printed.iter().enumerate() {
        let uri = info.uri(m);
        let doc = &info.docs[m];
        let text = &pm.text;
        // byte offset of every unit boundary
        let mut byte_of_unit: Vec<Option<usize>> = vec![None; doc.units.len() + 1];
        let mut u = 0;
        for (b, c) in text.char_indices() {
            byte_of_unit[u] = Some(b);
            u += c.len_utf16();
        }
        byte_of_unit[u] = Some(text.len());
        for unit in 0..=doc.units.len() {
            let Some(o) = byte_of_unit[unit] else { continue };
            // positions on line terminators belong to the line end; skip the unit between CR and LF
            if unit > 0 && unit < doc.units.len() && doc.units[unit - 1] == b'\r' as u16 && doc.units[unit] == b'\n' as u16 {
                continue;
            }
            counter += 1;
            if counter % stride != phase % stride {
                continue;
            }
            let pos = doc.position_of(unit);
            let z = zone(pm, o);
            // ---------------- definition
            let def = locs_of(&lsp.position_request("textDocument/definition", &uri, pos[0], pos[1])?);
            st.inc("definition_requests");
            let strict_def = |t: &Target| info.binder_loc(t, m).into_iter().collect::<Vec<Loc>>();
            let ok = match &z {
                Zone::Use(t) => {
                    st.inc("positions:use");
                    def == strict_def(t)
                }
                Zone::Lenient(Some(t)) => def.is_empty() || def == strict_def(t),
                Zone::Lenient(None) => def.is_empty() || def.len() == 1,
                Zone::DeclName(d) => def.is_empty() || def == strict_def(&Target::Decl(*d)),
                Zone::Binder(Some(t)) => def.is_empty() || def == strict_def(t),
                Zone::Binder(None) => def.is_empty(),
                Zone::Nothing => {
                    st.inc("positions:no-identifier");
                    def.is_empty()
                }
            };
            if !ok && out.len() < 3 {
                let zname = match &z {
                    Zone::Use(_) => "use",
                    Zone::Nothing => "no-identifier",
                    Zone::DeclName(_) => "declaration-name",
                    Zone::Binder(_) => "binder",
                    Zone::Lenient(_) => "lenient",
                };
                let want = match &z {
                    Zone::Use(t) => format!("{:?}", strict_def(t)),
                    _ => "empty (or the binder in a lenient zone)".to_owned(),
                };
                out.push(Violation::new(
                    "go-to-definition does not return the binding construct",
                    json!({"signature": format!("C17 definition at {zname}"), "module": pm.file, "position": pos, "byte": o,
                           "got": format!("{def:?}"), "want": want}),
                ));
            }
            // ---------------- references
            let mut refs = locs_of(&lsp.position_request("textDocument/references", &uri, pos[0], pos[1])?);
            refs.sort();
            st.inc("references_requests");
            let uses = |t: &Target| info.uses_of(t, m);
            let same = |refs: &Vec<Loc>, t: &Target| {
                // the declaration itself may or may not be included
                let want = uses(t);
                let mut got: Vec<Loc> = refs.clone();
                if let Some(decl) = info.binder_loc(t, m) {
                    got.retain(|r| *r != decl);
                }
                if let Target::Decl(d) = t {
                    let dm = info.prog.decls[*d].module;
                    if let Some(o) = info.printed[dm].occs.iter().find(|o| o.role == Role::DeclName(*d)) {
                        let nl = info.range_loc(dm, &o.range);
                        got.retain(|r| *r != nl);
                    }
                }
                got == want
            };
            let rok = match &z {
                Zone::Use(t @ Target::Decl(_)) => same(&refs, t),
                Zone::DeclName(d) => {
                    st.inc("positions:declaration-name");
                    same(&refs, &Target::Decl(*d))
                }
                Zone::Use(t @ Target::Builtin(_)) => refs.is_empty() || same(&refs, t),
                Zone::Use(t) => refs.is_empty() || same(&refs, t),
                Zone::Lenient(Some(t)) => refs.is_empty() || same(&refs, t),
                Zone::Lenient(None) => true,
                Zone::Binder(Some(t)) => refs.is_empty() || same(&refs, t),
                Zone::Binder(None) => refs.is_empty(),
                Zone::Nothing => refs.is_empty(),
            };
            if !rok && out.len() < 3 {
                let (zname, want) = match &z {
                    Zone::Use(t) => ("use", format!("{:?}", uses(t))),
                    Zone::DeclName(d) => ("declaration-name", format!("{:?}", uses(&Target::Decl(*d)))),
                    Zone::Nothing => ("no-identifier", "empty".into()),
                    _ => ("lenient", "empty or the uses bound to the binder".into()),
                };
                out.push(Violation::new(
                    "find-references does not return exactly the uses bound to the declaration",
                    json!({"signature": format!("C17 references at {zname}"), "module": pm.file, "position": pos, "byte": o,
                           "got": format!("{refs:?}"), "want": want}),
                ));
            }
        }
    }
    Ok(out)
}

/// A new declaration `let zzalias = q.name;` at the end of a module, naming a declaration of a module it imports
/// under a qualifier of its own; preferably one that the module does not use yet. Returns the module, the program
/// with the declaration and the module as printed then.
fn alias_edit(c: &WtCase, phase: usize) -> Option<(usize, Program, PrintedModule)> {
    let mut cands: Vec<(bool, usize, String, DeclId)> = Vec::new();
    for (em, md) in c.prog.modules.iter().enumerate() {
        for s in &md.stmts {
            if let Stmt::Use { target, qual: Some(q), .. } = s {
                let unique = md.stmts.iter().filter(|x| matches!(x, Stmt::Use { qual: Some(q2), .. } if q2 == q)).count() == 1;
                if !unique {
                    continue;
                }
                for (d, decl) in c.prog.decls.iter().enumerate() {
                    if decl.module == *target && !decl.is_ref() && !decl.is_fun() {
                        let used = c.printed[em].occs.iter().any(|o| o.role == Role::Use(Target::Decl(d)));
                        cands.push((used, em, q.clone(), d));
                    }
                }
            }
        }
    }
    if cands.iter().any(|x| !x.0) {
        cands.retain(|x| !x.0);
    }
    if cands.is_empty() {
        return None;
    }
    let (_, em, q, d) = cands[(phase / 8) % cands.len()].clone();
    let mut p2 = c.prog.clone();
    let id = p2.decls.len();
    p2.decls.push(Decl {
        module: em,
        name: "zzalias".into(),
        params: vec![],
        anns: vec![],
        rhs: E::Var {
            qual: Some(q),
            name: p2.decls[d].name.clone(),
            target: Target::Decl(d),
        },
        ty: p2.decls[d].ty.clone(),
    });
    p2.modules[em].stmts.push(Stmt::Let { id });
    let pm = crate::gen::print::print_program(&p2).into_iter().nth(em)?;
    Some((em, p2, pm))
}

pub fn write_workspace(dir: &Path, c: &WtCase) {
    write_sources(dir, &c.sources);
    std::fs::write(dir.join("oal.toml"), format!("[api]\nmain = \"{}\"\ntarget = \"out.yaml\"\n", c.sources.files[0].0)).unwrap();
}

pub fn run_case(c: &WtCase, stride: usize, phase: usize, st: &mut Stats) -> Vec<Violation> {
    let dir = TempDir::new("c17");
    write_workspace(&dir.path, c);
    let info = WsInfo::new(&dir.path, &c.prog, &c.printed);
    let mut lsp = match Lsp::start(&dir.path, None) {
        Ok(l) => l,
        Err(e) => {
            return vec![Violation::new(
                "the language server did not start on a valid workspace",
                json!({"signature": "C17 server-start", "error": format!("{e:?}")}),
            )]
        }
    };
    // every other session starts with unsaved drafts of all modules that come and go
    if phase % 2 == 1 {
        for (m, pm) in c.printed.iter().enumerate() {
            if let Err(e) = lsp.disturb(&file_uri(&dir.path.join(&pm.file)), &pm.text, (m + phase / 2) % 2 == 0) {
                return vec![Violation::new(
                    "the language server died or stopped answering while a draft was opened and closed",
                    json!({"signature": "C17 server-failure:draft", "error": format!("{e:?}")}),
                )];
            }
        }
        st.inc("sessions_after_drafts");
    }
    let mut r = sweep(&info, &mut lsp, stride, phase, st);
    // half of the sessions go on with an unsaved edit in an open document, after which the workspace as it is then is
    // swept again, more thinly. The edit is a comment line in front of one module (every position of that module is
    // one line further down, in the answers about every module) or a new declaration at the end of one module that
    // names a declaration of an imported module (which gains a reference, in a document that may have had none).
    let shifted: Vec<PrintedModule>;
    let prog2: Program;
    if matches!(&r, Ok(v) if v.is_empty()) && phase % 4 >= 2 && !c.printed[0].text.starts_with(OVERFLOWING_LITERAL) {
        // (sent as two ranged changes of one notification: the comment line at 0:0, then two blanks at 1:0 of the result)
        const LINE: &str = "// edited\n  ";
        let alias = if phase % 8 >= 6 { alias_edit(c, phase) } else { None };
        let (em, changes): (usize, Vec<(Option<[[u32; 2]; 2]>, String)>) = match alias {
            Some((em, p2, pm2)) => {
                let text = pm2.text.clone();
                shifted = c.printed.iter().enumerate().map(|(m, pm)| if m == em { pm2.clone() } else { pm.clone() }).collect();
                prog2 = p2;
                st.inc("sessions_swept_again_after_a_new_reference");
                (em, vec![(None, text)])
            }
            None => {
                let em = (phase / 4) % c.printed.len();
                shifted = c
                    .printed
                    .iter()
                    .enumerate()
                    .map(|(m, pm)| {
                        let mut q = pm.clone();
                        if m == em {
                            let sh = |r: &std::ops::Range<usize>| (r.start + LINE.len())..(r.end + LINE.len());
                            q.text = format!("{LINE}{}", pm.text);
                            for o in q.occs.iter_mut() {
                                o.range = sh(&o.range);
                                o.qual = o.qual.as_ref().map(sh);
                            }
                            for d in q.decl_ranges.iter_mut() {
                                d.1 = sh(&d.1);
                            }
                            for r in q.stmts.iter_mut() {
                                *r = sh(r);
                            }
                        }
                        q
                    })
                    .collect();
                prog2 = c.prog.clone();
                (em, vec![(Some([[0, 0], [0, 0]]), "// edited\n".to_owned()), (Some([[1, 0], [1, 0]]), "  ".to_owned())])
            }
        };
        let uri = file_uri(&dir.path.join(&c.printed[em].file));
        let sent = lsp.did_open(&uri, &c.printed[em].text).and_then(|_| lsp.did_change(&uri, 2, &changes));
        let info2 = WsInfo::new(&dir.path, &prog2, &shifted);
        r = match sent {
            Ok(()) => sweep(&info2, &mut lsp, stride * 2, phase, st).map(|mut v| {
                for x in v.iter_mut() {
                    if let Some(sig) = x.detail.get("signature").and_then(Value::as_str).map(str::to_owned) {
                        x.detail["signature"] = json!(format!("{sig} after an edit"));
                        x.detail["edited_module"] = json!(c.printed[em].file);
                    }
                }
                v
            }),
            Err(e) => Err(e),
        };
        st.inc("sessions_swept_again_after_an_edit");
    }
    // the one diagnostic expected in a valid workspace: the overflowing literal some sessions put on line 0
    let published: usize = lsp
        .diags
        .values()
        .map(|d| {
            d.iter()
                .filter(|x| {
                    !(c.printed[0].text.starts_with(OVERFLOWING_LITERAL)
                        && x["range"]["start"]["line"] == 0
                        && x["range"]["end"]["line"] == 0
                        && x["range"]["end"]["character"].as_u64().unwrap_or(99) <= OVERFLOWING_LITERAL.len() as u64)
                })
                .count()
        })
        .sum();
    if c.printed[0].text.starts_with(OVERFLOWING_LITERAL) {
        st.inc("sessions_with_an_overflowing_literal_in_front");
    }
    let out = match r {
        Ok(v) => {
            if published > 0 {
                st.inc("workspaces_with_diagnostics_skipped");
                vec![]
            } else {
                v
            }
        }
        Err(e) => vec![Violation::new(
            "the language server died or stopped answering during navigation requests",
            json!({"signature": format!("C17 server-failure:{}", match e { LspError::Timeout => "timeout", LspError::Died(_) => "died", LspError::ErrorResponse(_) => "error-response" }), "error": format!("{e:?}")}),
        )],
    };
    st.add("jsonrpc_messages", (lsp.messages_sent + lsp.messages_received) as u64);
    lsp.shutdown();
    out
}

impl Workload for Navigation {
    fn len(&self) -> u64 {
        self.n
    }
    fn case_json(&self, seed: u64, idx: u64) -> Value {
        let mut st = Stats::new();
        match gen_wt_case(seed, "c17", idx, &cfg(), &mut st) {
            Some(c) => json!({"seed": seed, "index": idx, "sources": c.sources.to_json()}),
            None => json!({"skipped": true}),
        }
    }
    fn run(&self, seed: u64, idx: u64, st: &mut Stats) -> Vec<Violation> {
        let Some(mut c) = gen_wt_case(seed, "c17", idx, &cfg(), st) else { return vec![] };
        if idx % 2 == 1 {
            with_trivia(&mut c, seed, "c17", idx);
        } else if idx % 4 == 0 {
            with_tight(&mut c);
        }
        if idx % 8 == 6 {
            with_overflowing_literal(&mut c);
        }
        let v = run_case(&c, self.stride, idx as usize, st);
        st.nontrivial(hash64(&c.sources.files));
        st.sample(|| json!({"sources": c.sources.to_json()}));
        v
    }
    fn run_json(&self, case: &Value, st: &mut Stats) -> Vec<Violation> {
        if case.get("skipped").is_some() {
            return vec![];
        }
        // the binding table comes from the generator: regenerate from (seed, index), full sweep
        let seed = case["seed"].as_u64().unwrap_or(1);
        let idx = case["index"].as_u64().unwrap_or(0);
        let Some(mut c) = gen_wt_case(seed, "c17", idx, &cfg(), st) else { return vec![] };
        if idx % 2 == 1 {
            with_trivia(&mut c, seed, "c17", idx);
        } else if idx % 4 == 0 {
            with_tight(&mut c);
        }
        if idx % 8 == 6 {
            with_overflowing_literal(&mut c);
        }
        run_case(&c, 1, idx as usize, st)
    }
    fn chunk(&self) -> u64 {
        2
    }
    fn case_timeout_s(&self) -> u64 {
        300
    }
}

pub fn run(ctx: &Ctx) -> i32 {
    let mut acc = Acc::new(ctx);
    let wl = Navigation {
        n: if ctx.quick() { 320 } else { 10_000 },
        stride: 1,
    };
    acc.pool(&wl, "c17", true);
    if acc.stats.get("positions:use") == 0 {
        acc.inconclusive.push("no identifier use was probed".into());
    }
    // workspaces of valid programs for which the server publishes diagnostics are not judged; if there are many of
    // them the navigation answers were not really observed
    let skipped = acc.stats.get("workspaces_with_diagnostics_skipped");
    if skipped * 10 > wl.n {
        acc.inconclusive.push(format!("the server published diagnostics for {skipped} of {} valid workspaces, which were therefore not judged", wl.n));
    }
    acc.finish(
        "exploration",
        "G-wt multi-module workspaces (6-name identifier pool, qualified and unqualified imports) written to disk with an oal.toml; the real oal-lsp is started on each and asked textDocument/definition and textDocument/references at every UTF-16 position of every line of every module (including one past each line end); answers compared with the generator's span and binding tables converted by an independent UTF-16 line model; lenient zones: the position right after an identifier, qualifier and dot of a qualified use, binder tokens; every other session first opens each module with an unsaved draft of another line layout (broken: diagnostics; valid: locations), issues requests in it and closes it without saving; non-trivial = every workspace; distinct by source hash",
        if ctx.quick() { 20 } else { 500 },
        false,
        &["definition targets: the whole declaration for let, the binder token for parameters and rec binders",
          "the declaration itself may or may not be part of the references"],
        json!({}),
    )
}
