//! C18: rename is meaning-preserving and never crashes the server (real oal-lsp + oal-cli).

use super::c17::write_workspace;
use super::common::*;
use super::{Acc, Ctx};
use crate::drive::cli::{run_cli, write_sources, TempDir};
use crate::drive::lsp::{file_uri, ClientDoc, Lsp, LspError};
use crate::drive::pipeline::Sources;
use crate::gen::ast::Target;
use crate::gen::print::Role;
use crate::oracle::canon::{canon, first_diff};
use crate::pool::{Violation, Workload};
use crate::util::{hash64, Rng, Stats};
use serde_json::{json, Value};

pub struct Renames {
    pub n: u64,
}

/// C17's shape without imports that share a qualifier: renaming such a qualifier is the open finding
/// c18-rename-shared-qualifier (replayed by its witness on every run).
pub fn cfg() -> crate::gen::wt::Cfg {
    crate::gen::wt::Cfg {
        shadow_pct: 0,
        // every case: a rename that confuses a rec binder with the outer name it shadows changes the document
        rec_shadow_every: 1,
        ..super::c17::cfg()
    }
}

fn compile_doc(src: &Sources, tag: &str) -> Result<Value, String> {
    let dir = TempDir::new(tag);
    write_sources(&dir.path, src);
    let r = run_cli(&dir.path, &src.files[0].0, "out.yaml", None);
    if !r.success() {
        return Err(crate::util::clip(&r.stderr, 300));
    }
    let text = std::fs::read_to_string(dir.path.join("out.yaml")).map_err(|e| e.to_string())?;
    serde_yaml::from_str::<Value>(&text).map_err(|e| e.to_string())
}

fn rename_component(doc: &Value, old: &str, new: &str) -> Value {
    let s = doc.to_string();
    let s = s.replace(&format!("\"#/components/schemas/{old}\""), &format!("\"#/components/schemas/{new}\""));
    let mut d: Value = serde_json::from_str(&s).unwrap_or(Value::Null);
    if let Some(m) = d.pointer_mut("/components/schemas").and_then(Value::as_object_mut) {
        if let Some(v) = m.remove(old) {
            m.insert(new.to_owned(), v);
        }
    }
    d
}

/// The printed modules as they are after the edit prelude: a comment line inserted at the top and two blanks at
/// the start of what was the second line (occurrence ranges shifted accordingly).
fn after_prelude(printed: &[crate::gen::print::PrintedModule]) -> Vec<crate::gen::print::PrintedModule> {
    printed
        .iter()
        .map(|pm| {
            let mut q = pm.clone();
            let b1 = pm.text.find('\n').map(|i| i + 1).unwrap_or(pm.text.len());
            q.text = format!("// c\n{}  {}", &pm.text[..b1], &pm.text[b1..]);
            let shift = |r: &std::ops::Range<usize>| {
                let d = 5 + if r.start >= b1 { 2 } else { 0 };
                (r.start + d)..(r.end + d)
            };
            for o in q.occs.iter_mut() {
                o.range = shift(&o.range);
                if let Some(ql) = &o.qual {
                    o.qual = Some(shift(ql));
                }
            }
            q
        })
        .collect()
}

fn run_case(c0: &WtCase, seed: u64, idx: u64, st: &mut Stats) -> Vec<Violation> {
    // every fourth session: the files on disk hold the printed program; the client opens every module and sends
    // ONE didChange with two ranged changes (a comment line at 0:0, then two blanks at 2:0 of the result —
    // contentChanges apply one after the other) and keeps the documents open; everything below works on the
    // edited texts
    // (also in some of the sessions that start with drafts: the document is then opened a second time)
    let prelude = idx % 4 == 2 || idx % 8 == 3;
    let edited;
    let c: &WtCase = if prelude {
        let printed = after_prelude(&c0.printed);
        edited = WtCase {
            prog: c0.prog.clone(),
            sources: sources_of(&printed),
            printed,
            expected: c0.expected.clone(),
        };
        &edited
    } else {
        c0
    };
    let mut out: Vec<Violation> = Vec::new();
    let base_doc = match compile_doc(&c.sources, "c18a") {
        Ok(d) => d,
        Err(_) => {
            st.inc("original_not_accepted_by_cli_skipped");
            return out;
        }
    };
    let dir = TempDir::new("c18");
    write_workspace(&dir.path, c0);
    if idx % 8 == 3 {
        // the files on disk are behind what the client is going to open (unsaved work restored by the editor): the
        // server reads them first, the documents opened later carry the texts that count
        for pm in &c0.printed {
            let _ = std::fs::write(dir.path.join(&pm.file), format!("// an older version, on disk\n\n{}", pm.text));
        }
        st.inc("sessions_with_older_files_on_disk");
    }
    let docs: Vec<ClientDoc> = c.printed.iter().map(|m| ClientDoc::new(&m.text)).collect();
    let uris: Vec<String> = c.printed.iter().map(|m| file_uri(&dir.path.join(&m.file))).collect();
    let mut rng = Rng::for_case(seed, "c18pos", idx);
    // probe positions: (module, byte offset, what)
    let mut probes: Vec<(usize, usize, &'static str)> = Vec::new();
    // names bound by a `rec` somewhere in the module: their occurrences (binder, uses, and whatever outer
    // declaration or parameter of the same name the binder shadows) are asked first
    let rec_names: Vec<Vec<&str>> = c
        .printed
        .iter()
        .map(|pm| pm.occs.iter().filter(|o| matches!(o.role, Role::RecBinder(_))).map(|o| &pm.text[o.range.clone()]).collect())
        .collect();
    let mut first: Vec<(usize, usize)> = Vec::new();
    for (m, pm) in c.printed.iter().enumerate() {
        for o in &pm.occs {
            if rec_names[m].contains(&&pm.text[o.range.clone()]) {
                first.push((m, o.range.start));
            }
            let kind = match &o.role {
                Role::Use(Target::Decl(_)) => "use-of-declaration",
                Role::Use(Target::Param(..)) => "use-of-parameter",
                Role::Use(Target::Rec(_)) => "use-of-rec-binder",
                Role::Use(Target::Builtin(_)) => "use-of-builtin",
                Role::DeclName(_) => "declaration-name",
                Role::ParamBinder(..) => "parameter-binder",
                Role::RecBinder(_) => "rec-binder",
                Role::ImportQual(..) => "import-qualifier",
            };
            probes.push((m, o.range.start, kind));
            if o.range.len() > 2 {
                probes.push((m, o.range.start + o.range.len() / 2, kind));
            }
            if let Some(q) = &o.qual {
                probes.push((m, q.start, "qualifier-of-use"));
            }
        }
        for _ in 0..4 {
            let b: Vec<usize> = pm.text.char_indices().map(|(i, _)| i).collect();
            if !b.is_empty() {
                probes.push((m, *rng.pick(&b), "random"));
            }
        }
    }
    rng.shuffle(&mut probes);
    // the qualifier part of qualified uses first (the server answers for the identifier behind the dot there)
    probes.sort_by_key(|p| {
        if p.2 == "qualifier-of-use" {
            0
        } else if first.contains(&(p.0, p.1)) {
            1
        } else {
            2
        }
    });
    let keep = 40 + probes.iter().filter(|p| p.2 == "qualifier-of-use").count().min(12);
    probes.truncate(keep);
    let mut lsp = match Lsp::start(&dir.path, None) {
        Ok(l) => l,
        Err(e) => {
            return vec![Violation::new(
                "the language server did not start",
                json!({"signature": "C18 server-start", "error": format!("{e:?}")}),
            )]
        }
    };
    // every other session starts with unsaved drafts of all modules that come and go
    if idx % 2 == 1 {
        for (m, pm) in c.printed.iter().enumerate() {
            if let Err(e) = lsp.disturb(&uris[m], &pm.text, (m + idx as usize / 2) % 2 == 0) {
                return vec![Violation::new(
                    "the language server died or stopped answering while a draft was opened and closed",
                    json!({"signature": "C18 server-failure on draft", "error": crate::util::clip(&format!("{e:?}"), 500)}),
                )];
            }
        }
        st.inc("sessions_after_drafts");
    }
    if prelude {
        for (m, pm) in c0.printed.iter().enumerate() {
            let r = lsp.did_open(&uris[m], &pm.text).and_then(|_| {
                lsp.did_change(
                    &uris[m],
                    2,
                    &[(Some([[0, 0], [0, 0]]), "// c\n".to_owned()), (Some([[2, 0], [2, 0]]), "  ".to_owned())],
                )
            });
            if let Err(e) = r {
                return vec![Violation::new(
                    "the language server died or stopped answering during the edit prelude",
                    json!({"signature": "C18 server-failure on edit prelude", "error": crate::util::clip(&format!("{e:?}"), 500)}),
                )];
            }
        }
        st.inc("sessions_after_a_two_change_notification");
    }
    let mut fresh = 0;
    for (m, byte, kind) in probes {
        if !c.printed[m].text.is_char_boundary(byte) {
            continue;
        }
        let pos = docs[m].position_of_byte(&c.printed[m].text, byte);
        let died = |e: LspError, what: &str| -> Violation {
            Violation::new(
                "the language server died or stopped answering on a rename request",
                json!({"signature": format!("C18 server-failure on {what} at {kind}"), "error": crate::util::clip(&format!("{e:?}"), 500),
                       "module": c.printed[m].file, "position": pos}),
            )
        };
        let prep = match lsp.position_request("textDocument/prepareRename", &uris[m], pos[0], pos[1]) {
            Ok(v) => v,
            Err(e) => {
                out.push(died(e, "prepareRename"));
                break;
            }
        };
        st.inc("prepare_requests");
        if prep.is_null() {
            st.inc(&format!("not-offered:{kind}"));
            continue;
        }
        let r = &prep;
        let (Some(sl), Some(sc), Some(el), Some(ec)) = (
            r["start"]["line"].as_u64(),
            r["start"]["character"].as_u64(),
            r["end"]["line"].as_u64(),
            r["end"]["character"].as_u64(),
        ) else {
            continue;
        };
        let (so, eo) = (docs[m].offset_of([sl as u32, sc as u32]), docs[m].offset_of([el as u32, ec as u32]));
        let old_name = String::from_utf16_lossy(&docs[m].units[so.min(eo)..eo.max(so)]);
        fresh += 1;
        let new_name = if old_name.starts_with('@') { format!("@zfresh{fresh}") } else { format!("zfresh{fresh}") };
        let edit = match lsp.rename(&uris[m], pos[0], pos[1], &new_name) {
            Ok(v) => v,
            Err(e) => {
                out.push(died(e, "rename"));
                break;
            }
        };
        st.inc(&format!("renamed:{kind}"));
        // apply the edits client-side
        let mut new_docs = docs.clone();
        let mut bad: Option<String> = None;
        let mut n_edits = 0;
        if let Some(changes) = edit.get("changes").and_then(Value::as_object) {
            for (uri, edits) in changes {
                let Some(mi) = uris.iter().position(|u| u == uri) else {
                    bad = Some(format!("edit for a file outside the workspace: {uri}"));
                    break;
                };
                let mut es: Vec<(usize, usize, String)> = Vec::new();
                for e in edits.as_array().cloned().unwrap_or_default() {
                    let s = docs[mi].offset_of([e["range"]["start"]["line"].as_u64().unwrap_or(0) as u32, e["range"]["start"]["character"].as_u64().unwrap_or(0) as u32]);
                    let t = docs[mi].offset_of([e["range"]["end"]["line"].as_u64().unwrap_or(0) as u32, e["range"]["end"]["character"].as_u64().unwrap_or(0) as u32]);
                    es.push((s, t, e["newText"].as_str().unwrap_or("").to_owned()));
                }
                es.sort();
                for w in es.windows(2) {
                    if w[0].1 > w[1].0 {
                        bad = Some("overlapping edits".into());
                    }
                }
                for (s, t, _) in &es {
                    if s > t || *t > docs[mi].units.len() {
                        bad = Some("edit range outside the document".into());
                        continue;
                    }
                    let held = String::from_utf16_lossy(&docs[mi].units[*s..*t]);
                    if held != old_name {
                        bad = Some(format!("an edit replaces {held:?}, not the old name {old_name:?}"));
                    }
                }
                if bad.is_some() {
                    break;
                }
                for (s, t, txt) in es.iter().rev() {
                    new_docs[mi].replace(*s, *t, txt);
                    n_edits += 1;
                }
            }
        }
        st.add("edits_applied", n_edits);
        if let Some(b) = bad {
            out.push(Violation::new(
                "rename returned edits that overlap or do not replace exactly the old name",
                json!({"signature": format!("C18 bad-edits at {kind}: {}", b.split(':').next().unwrap_or("")), "detail": b, "module": c.printed[m].file, "position": pos}),
            ));
            continue;
        }
        let new_src = Sources {
            files: c.printed.iter().zip(new_docs.iter()).map(|(pm, d)| (pm.file.clone(), d.text())).collect(),
        };
        match compile_doc(&new_src, "c18b") {
            Ok(d) => {
                // an offered rename of an @reference must rename the component, whatever part of the variable the
                // cursor is on
                let want = if old_name.starts_with('@') {
                    rename_component(&base_doc, &old_name[1..], &new_name[1..])
                } else {
                    base_doc.clone()
                };
                if let Some((ptr, _, _)) = first_diff(&canon(&d), &canon(&want)) {
                    out.push(Violation::new(
                        "the renamed sources compile to a different document",
                        json!({"signature": format!("C18 rename-changes-document at {kind}"), "pointer": ptr, "module": c.printed[m].file, "position": pos,
                               "old": old_name, "new": new_name, "renamed_sources": new_src.to_json()}),
                    ));
                } else {
                    st.inc("renames_preserving_the_document");
                }
            }
            Err(e) => out.push(Violation::new(
                "the renamed sources are not accepted any more",
                json!({"signature": format!("C18 rename-breaks-acceptance at {kind}"), "error": e, "module": c.printed[m].file, "position": pos,
                       "old": old_name, "new": new_name, "renamed_sources": new_src.to_json()}),
            )),
        }
        if out.len() >= 3 {
            break;
        }
    }
    if !lsp.alive() && out.is_empty() {
        out.push(Violation::new(
            "the language server exited during the rename session",
            json!({"signature": "C18 server-exited", "stderr": lsp.stderr_tail()}),
        ));
    }
    st.add("jsonrpc_messages", (lsp.messages_sent + lsp.messages_received) as u64);
    lsp.shutdown();
    out
}

impl Workload for Renames {
    fn len(&self) -> u64 {
        self.n
    }
    fn case_json(&self, seed: u64, idx: u64) -> Value {
        let mut st = Stats::new();
        match gen_wt_case(seed, "c18", idx, &cfg(), &mut st) {
            Some(c) => json!({"seed": seed, "index": idx, "sources": c.sources.to_json()}),
            None => json!({"skipped": true}),
        }
    }
    fn run(&self, seed: u64, idx: u64, st: &mut Stats) -> Vec<Violation> {
        let Some(mut c) = gen_wt_case(seed, "c18", idx, &cfg(), st) else { return vec![] };
        if idx % 2 == 1 {
            with_trivia(&mut c, seed, "c18", idx);
        } else if idx % 4 == 0 {
            with_tight(&mut c);
        }
        st.nontrivial(hash64(&c.sources.files));
        st.sample(|| json!({"sources": c.sources.to_json()}));
        run_case(&c, seed, idx, st)
    }
    fn run_json(&self, case: &Value, st: &mut Stats) -> Vec<Violation> {
        if case.get("skipped").is_some() {
            return vec![];
        }
        let seed = case["seed"].as_u64().unwrap_or(1);
        let idx = case["index"].as_u64().unwrap_or(0);
        let Some(mut c) = gen_wt_case(seed, "c18", idx, &cfg(), st) else { return vec![] };
        if idx % 2 == 1 {
            with_trivia(&mut c, seed, "c18", idx);
        } else if idx % 4 == 0 {
            with_tight(&mut c);
        }
        run_case(&c, seed, idx, st)
    }
    fn chunk(&self) -> u64 {
        2
    }
    fn case_timeout_s(&self) -> u64 {
        300
    }
}

pub fn run(ctx: &Ctx) -> i32 {
    let mut acc = Acc::new(ctx);
    let wl = Renames {
        n: if ctx.quick() { 400 } else { 10_000 },
    };
    acc.pool(&wl, "c18", true);
    acc.witnesses();
    for k in ["renamed:use-of-declaration", "renamed:declaration-name"] {
        if acc.stats.get(k) == 0 {
            acc.inconclusive.push(format!("binder kind never reached: {k}"));
        }
    }
    if !ctx.quick() {
        acc.asan(&["c18"]);
    }
    acc.finish(
        "exploration",
        "G-wt multi-module workspaces with shadowing on disk; the real oal-lsp is asked prepareRename at the start and middle of every identifier occurrence (uses of declarations, parameters, rec binders, builtins, qualifiers of uses, declaration names, binders, import qualifiers) and at random positions (<=40 probes per workspace); wherever a range is offered, textDocument/rename to a fresh name (an @-name for @-identifiers), edits checked (non-overlapping, each holding exactly the old name), applied by an independent client-side UTF-16 model, and both versions compiled with the real oal-cli and compared up to generated names (for an @name: with that component renamed); server liveness after every request; every other session first opens each module with an unsaved draft of another line layout, issues requests in it and closes it without saving; an offered rename of an @reference must rename the component whatever part of the variable the cursor is on; non-trivial = every workspace; distinct by source hash",
        if ctx.quick() { 30 } else { 300 },
        false,
        &["fresh names never clash with existing identifiers"],
        json!({}),
    )
}
