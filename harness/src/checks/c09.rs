//! C09: recursion is cut into named components, finitely and without aliasing.

use super::common::*;
use super::{Acc, Ctx};
use crate::drive::pipeline::{self, Outcome, Sources};
use crate::gen::ast::*;
use crate::gen::print::print_program;
use crate::gen::wt::Cfg;
use crate::oracle::canon::{canon, diff_class, first_diff, is_implicit};
use crate::pool::{Violation, Workload};
use crate::reference::eval::{expected, Expected};
use crate::util::{hash64, Rng, Stats};
use serde_json::{json, Value};

pub struct Recursion {
    pub n: u64,
}

pub fn cfg() -> Cfg {
    Cfg {
        rec_bias: 70,
        max_decls: 8,
        min_decls: 3,
        depth: 4,
        ..Cfg::default()
    }
}

fn obj(ps: Vec<E>) -> E {
    E::Obj(ps)
}
fn prop(n: &str, rhs: E) -> E {
    E::Prop {
        name: n.to_owned(),
        mark: None,
        rhs: Box::new(rhs),
    }
}
fn get(range: E) -> E {
    E::Xfer {
        methods: vec![0],
        params: None,
        domain: None,
        range: Box::new(range),
    }
}
fn res(path: &str, range: E) -> Stmt {
    Stmt::Res {
        e: E::Rel {
            uri: Box::new(E::UriT {
                segs: vec![Seg::Lit(path.to_owned())],
                params: None,
            }),
            xfers: vec![get(range)],
        },
    }
}

/// Hand-shaped recursion scenarios with random parameters, as GenAST so that the reference applies.
/// Two imported modules with the same base name and the same token shape, each with a recursive
/// declaration (and a rec) at the same position: the two recursion points must stay different components.
fn twin_modules(rng: &mut Rng) -> Program {
    let prims = [PrimK::Num, PrimK::Str, PrimK::Bool, PrimK::Int];
    let mut decls = Vec::new();
    let mut modules = vec![Module {
        file: "main.oal".into(),
        stmts: vec![],
    }];
    let dirs = [("users/types.oal", "u"), ("groups/types.oal", "g")];
    let rec_id = |m: usize| m;
    for (mi, (file, _)) in dirs.iter().enumerate() {
        let m = mi + 1;
        let base = decls.len();
        // let tree = { 'val <prim>, 'kids [tree] };  let list = rec x { 'head <prim>, 'tail x };
        decls.push(Decl {
            module: m,
            name: "tree".into(),
            params: vec![],
            anns: vec![],
            rhs: obj(vec![prop("val", E::Prim(prims[(mi + rng.below(2)) % 4])), prop("kids", E::Arr(Box::new(E::var("tree", Target::Decl(base)))))]),
            ty: Ty::Obj,
        });
        decls.push(Decl {
            module: m,
            name: "list".into(),
            params: vec![],
            anns: vec![],
            rhs: E::Rec {
                binder: "x".into(),
                id: rec_id(mi),
                body: Box::new(obj(vec![prop("head", E::Prim(prims[(mi * 2 + 1) % 4])), prop("tail", E::var("x", Target::Rec(rec_id(mi))))])),
            },
            ty: Ty::Obj,
        });
        modules.push(Module {
            file: (*file).into(),
            stmts: vec![Stmt::Let { id: base }, Stmt::Let { id: base + 1 }],
        });
    }
    let q = |m: usize, d: usize, name: &str| E::Var {
        qual: Some(dirs[m - 1].1.to_owned()),
        name: name.to_owned(),
        target: Target::Decl(d),
    };
    let mut stmts = vec![
        Stmt::Use {
            path: "users/types.oal".into(),
            target: 1,
            qual: Some("u".into()),
        },
        Stmt::Use {
            path: "groups/types.oal".into(),
            target: 2,
            qual: Some("g".into()),
        },
    ];
    stmts.push(res("users", obj(vec![prop("t", q(1, 0, "tree")), prop("l", q(1, 1, "list"))])));
    stmts.push(res("groups", obj(vec![prop("t", q(2, 2, "tree")), prop("l", q(2, 3, "list"))])));
    modules[0].stmts = stmts;
    Program {
        modules,
        decls,
        n_recs: 2,
    }
}

fn scenario(rng: &mut Rng) -> (Program, &'static str) {
    if rng.chance(1, 6) {
        return (twin_modules(rng), "twin-modules");
    }
    match rng.below(5) {
        0 => {
            // rec inside a function applied k times with equal and different arguments
            let k = rng.range(1, 4);
            let f = Decl {
                module: 0,
                name: "f".into(),
                params: vec!["x".into()],
                anns: vec![],
                rhs: {
                    let mut ps = vec![prop("v", E::var("x", Target::Param(0, 0))), prop("next", E::Arr(Box::new(E::var("r", Target::Rec(0)))))];
                    if rng.chance(1, 2) {
                        // a nested rec that mentions the outer binder but not the parameter
                        ps.push(prop(
                            "kids",
                            E::Arr(Box::new(E::Rec {
                                binder: "z".into(),
                                id: 1,
                                body: Box::new(obj(vec![prop("up", E::var("r", Target::Rec(0))), prop("n", E::Arr(Box::new(E::var("z", Target::Rec(1)))))])),
                            })),
                        ));
                    }
                    E::Rec {
                        binder: "r".into(),
                        id: 0,
                        body: Box::new(obj(ps)),
                    }
                },
                ty: Ty::Fun(vec![Ty::Prim], Box::new(Ty::Obj)),
            };
            let prims = [PrimK::Num, PrimK::Str, PrimK::Bool];
            let mut ps = Vec::new();
            let mut decls = vec![f];
            let mut stmts = vec![Stmt::Let { id: 0 }];
            // some applications stand in a reference declaration of their own (`let @a1 = f str;`): each instantiation
            // is evaluated inside another named component
            let named = rng.chance(1, 2);
            for i in 0..k {
                let span = if rng.chance(1, 2) { 1 } else { 3 };
                let a = E::Prim(prims[rng.below(span)]);
                let app = E::App {
                    f: Box::new(E::var("f", Target::Decl(0))),
                    args: vec![a],
                };
                if named && rng.chance(2, 3) {
                    let id = decls.len();
                    let name = format!("@a{i}");
                    decls.push(Decl {
                        module: 0,
                        name: name.clone(),
                        params: vec![],
                        anns: vec![],
                        rhs: app,
                        ty: Ty::Obj,
                    });
                    stmts.push(Stmt::Let { id });
                    ps.push(prop(&format!("a{i}"), E::var(&name, Target::Decl(id))));
                } else {
                    ps.push(prop(&format!("a{i}"), app));
                }
            }
            // every other case gives each application a resource of its own: instantiations in different `res`
            // statements (each the first application of its statement) are different instantiations all the same
            let spread = k > 1 && rng.chance(1, 2);
            if spread {
                for (i, pr) in ps.into_iter().enumerate() {
                    stmts.push(res(&format!("x{i}"), obj(vec![pr])));
                }
            } else {
                stmts.push(res("x", obj(ps)));
            }
            let p = Program {
                modules: vec![Module {
                    file: "main.oal".into(),
                    stmts,
                }],
                decls,
                n_recs: 2,
            };
            (p, if spread { "rec-in-function-across-resources" } else { "rec-in-function" })
        }
        1 => {
            // ring of k mutually recursive object declarations, used from main (possibly through a module)
            let k = rng.range(1, 5);
            let two_modules = rng.chance(1, 2);
            let m = if two_modules { 1 } else { 0 };
            let mut decls = Vec::new();
            for i in 0..k {
                decls.push(Decl {
                    module: m,
                    name: format!("r{i}"),
                    params: vec![],
                    anns: vec![],
                    rhs: obj(vec![
                        prop("n", E::var(&format!("r{}", (i + 1) % k), Target::Decl((i + 1) % k))),
                        prop("tag", E::Prim(PrimK::Int)),
                    ]),
                    ty: Ty::Obj,
                });
            }
            let use0 = E::Var {
                qual: if two_modules { Some("lib".into()) } else { None },
                name: "r0".into(),
                target: Target::Decl(0),
            };
            let mut main = Vec::new();
            if two_modules {
                main.push(Stmt::Use {
                    path: "a.oal".into(),
                    target: 1,
                    qual: Some("lib".into()),
                });
            }
            let mut lets: Vec<Stmt> = (0..k).map(|i| Stmt::Let { id: i }).collect();
            rng.shuffle(&mut lets);
            let mut modules = Vec::new();
            if two_modules {
                main.push(res("x", obj(vec![prop("a", use0.clone()), prop("b", E::Arr(Box::new(use0)))])));
                modules.push(Module {
                    file: "main.oal".into(),
                    stmts: main,
                });
                modules.push(Module {
                    file: "a.oal".into(),
                    stmts: lets,
                });
            } else {
                main.extend(lets);
                main.push(res("x", obj(vec![prop("a", use0.clone()), prop("b", E::Arr(Box::new(use0)))])));
                modules.push(Module {
                    file: "main.oal".into(),
                    stmts: main,
                });
            }
            (
                Program {
                    modules,
                    decls,
                    n_recs: 0,
                },
                "mutual-ring",
            )
        }
        2 => {
            // nested rec with the inner one referring to both binders
            let body = obj(vec![
                prop("self", E::var("a", Target::Rec(0))),
                prop(
                    "inner",
                    E::Rec {
                        binder: if rng.chance(1, 2) { "a".into() } else { "b".into() },
                        id: 1,
                        body: Box::new(obj(vec![prop("up", E::Arr(Box::new(E::var("zz", Target::Rec(0))))), prop("me", E::var("zi", Target::Rec(1)))])),
                    },
                ),
            ]);
            // fix the spelling of the uses: the inner binder may shadow the outer one, so the outer use is only
            // generated when the names differ
            let mut e = E::Rec {
                binder: "a".into(),
                id: 0,
                body: Box::new(body),
            };
            fn fix(e: &mut E, inner: &str) {
                if let E::Var { name, target, .. } = e {
                    match target {
                        Target::Rec(0) => *name = "a".into(),
                        Target::Rec(1) => *name = inner.to_owned(),
                        _ => {}
                    }
                }
                for c in e.children_mut() {
                    fix(c, inner);
                }
            }
            let inner = {
                let mut n = String::new();
                e.visit(&mut |x| {
                    if let E::Rec { id: 1, binder, .. } = x {
                        n = binder.clone();
                    }
                });
                n
            };
            if inner == "a" {
                // outer binder shadowed inside: drop the `up` property
                if let E::Rec { body, .. } = &mut e {
                    if let E::Obj(ps) = body.as_mut() {
                        if let E::Prop { rhs, .. } = &mut ps[1] {
                            if let E::Rec { body: ib, .. } = rhs.as_mut() {
                                if let E::Obj(ips) = ib.as_mut() {
                                    ips.remove(0);
                                }
                            }
                        }
                    }
                }
            }
            fix(&mut e, &inner);
            (
                Program {
                    modules: vec![Module {
                        file: "main.oal".into(),
                        stmts: vec![res("x", e)],
                    }],
                    decls: vec![],
                    n_recs: 2,
                },
                "nested-rec",
            )
        }
        3 => {
            // recursive relation and unguarded recursion
            let rel = E::Rec {
                binder: "x".into(),
                id: 0,
                body: Box::new(E::Rel {
                    uri: Box::new(E::UriT {
                        segs: vec![Seg::Lit("self".into())],
                        params: None,
                    }),
                    xfers: vec![get(obj(vec![prop("self", E::var("x", Target::Rec(0)))]))],
                }),
            };
            let unguarded = Decl {
                module: 0,
                name: "u".into(),
                params: vec![],
                anns: vec![],
                rhs: E::Op {
                    op: OpK::Sum,
                    args: vec![E::Prim(PrimK::Num), E::var("u", Target::Decl(0))],
                },
                ty: Ty::Prim,
            };
            (
                Program {
                    modules: vec![Module {
                        file: "main.oal".into(),
                        stmts: vec![Stmt::Res { e: rel }, Stmt::Let { id: 0 }, res("y", obj(vec![prop("u", E::var("u", Target::Decl(0)))]))],
                    }],
                    decls: vec![unguarded],
                    n_recs: 1,
                },
                "recursive-relation-and-unguarded",
            )
        }
        _ => {
            // cycle through a function body: a = {'p (f num)}; f x = {'q a, 'r x}
            let a = Decl {
                module: 0,
                name: "a".into(),
                params: vec![],
                anns: vec![],
                rhs: obj(vec![prop(
                    "p",
                    E::App {
                        f: Box::new(E::var("f", Target::Decl(1))),
                        args: vec![E::Prim(PrimK::Num)],
                    },
                )]),
                ty: Ty::Obj,
            };
            let f = Decl {
                module: 0,
                name: "f".into(),
                params: vec!["x".into()],
                anns: vec![],
                rhs: obj(vec![prop("q", E::var("a", Target::Decl(0))), prop("r", E::var("x", Target::Param(1, 0)))]),
                ty: Ty::Fun(vec![Ty::Prim], Box::new(Ty::Obj)),
            };
            let k = rng.range(1, 3);
            let mut ps = vec![prop("a", E::var("a", Target::Decl(0)))];
            for i in 0..k {
                ps.push(prop(
                    &format!("f{i}"),
                    E::App {
                        f: Box::new(E::var("f", Target::Decl(1))),
                        args: vec![E::Prim(if i % 2 == 0 { PrimK::Str } else { PrimK::Num })],
                    },
                ));
            }
            (
                Program {
                    modules: vec![Module {
                        file: "main.oal".into(),
                        stmts: vec![Stmt::Let { id: 1 }, Stmt::Let { id: 0 }, res("x", obj(ps))],
                    }],
                    decls: vec![a, f],
                    n_recs: 0,
                },
                "cycle-through-function",
            )
        }
    }
}

/// Programs whose cycles contain nothing to cut at: must be rejected.
pub fn uncuttable(rng: &mut Rng) -> (String, &'static str) {
    let k = rng.range(1, 5);
    if rng.chance(1, 2) {
        // random declaration graphs with a cycle that avoids every schema declaration (possibly inside a
        // component that also contains schema declarations)
        for _ in 0..200 {
            let (p, ok) = decl_graph(rng);
            if !ok {
                return (print_program(&p)[0].text.clone(), "declaration-graph");
            }
        }
    }
    match rng.below(9) {
        6 => {
            // a `rec` whose body is its own variable (directly, parenthesised, through another rec, through an
            // alternative of itself): a plain alias cycle, nothing to cut at
            let body = *rng.pick(&["r", "(r)", "(rec s r)", "((r))", "r | r", "(rec s (s | r))"]);
            let place = *rng.pick(&["let a = rec r BODY;\nres / on get -> <a>;", "res / on get -> <rec r BODY>;", "let f x = rec r BODY;\nres / on get -> <f {}>;", "let a = { 'p rec r BODY };\nres / on get -> <a>;"]);
            (place.replace("BODY", body), "rec-alias")
        }
        8 => {
            // alias cycles through `@` declarations: a reference name does not make an alias a schema
            let t = *rng.pick(&[
                "let @a = @b;\nlet @b = @a;\nres / on get -> <@a>;",
                "let @a = @a;\nres / on get -> <@a>;",
                "let @a = b;\nlet b = @a;\nres / on get -> <b>;",
                "let @a = (@b);\nlet @b = c;\nlet c = @a;\nres / on get -> <c>;",
            ]);
            (t.to_owned(), "reference-alias-cycle")
        }
        7 => {
            // a function-valued or content-valued recursion variable
            let t = *rng.pick(&["let a = rec r (get -> r);\nres /x on a;", "let a = rec r <status=200, r>;\nres / on get -> a;", "let a = rec r 'p r;\nres / on get -> { a };"]);
            (t.to_owned(), "rec-over-non-schema")
        }
        0 => {
            let mut s = String::new();
            for i in 0..k {
                s.push_str(&format!("let c{i} = c{};\n", (i + 1) % k));
            }
            s.push_str("res / on get -> c0;");
            (s, "alias-cycle")
        }
        1 => {
            let mut s = String::new();
            for i in 0..k {
                s.push_str(&format!("let f{i} x = f{} x;\n", (i + 1) % k));
            }
            s.push_str("res / on get -> f0 {};");
            (s, "function-cycle")
        }
        2 => {
            let mut s = String::new();
            for i in 0..k {
                s.push_str(&format!("let k{i} = <media=\"a/b\", k{}>;\n", (i + 1) % k));
            }
            s.push_str("res / on get -> k0;");
            (s, "content-cycle")
        }
        3 => ("let a = rec r /a?{ 'q r };\nres / on get -> {};".into(), "rec-over-uri"),
        4 => ("let a = rec r <r>;\nres / on get -> a;".into(), "rec-over-content"),
        _ => {
            let mut s = String::from("let a = f {};\nlet f x = g x;\n");
            s.push_str("let g y = a;\nres / on get -> a;");
            (s, "alias-through-functions")
        }
    }
}

/// Random declaration graphs over {object declaration, one-parameter function, alias}: the reference
/// cycle predicate says whether every cycle passes through a schema declaration.
/// Returns the program and whether the language accepts it.
pub fn decl_graph(rng: &mut Rng) -> (Program, bool) {
    let n = rng.range(2, 6);
    // 0 = object, 1 = function, 2 = alias
    let kinds: Vec<usize> = (0..n).map(|_| *rng.pick(&[0usize, 0, 1, 1, 2])).collect();
    let mut edges: Vec<Vec<usize>> = vec![Vec::new(); n];
    for (i, es) in edges.iter_mut().enumerate() {
        let k = if kinds[i] == 2 { 1 } else { rng.range(0, 2) };
        for _ in 0..k {
            es.push(rng.below(n));
        }
        let _ = i;
    }
    // resolved kind of an alias: follow alias edges; a pure alias cycle is unresolved (2)
    let resolve = |mut i: usize| -> usize {
        for _ in 0..=n {
            if kinds[i] != 2 {
                return kinds[i];
            }
            i = edges[i][0];
        }
        2
    };
    let rk: Vec<usize> = (0..n).map(resolve).collect();
    let name = |i: usize| format!("{}{}", ["d", "f", "a"][kinds[i]], i);
    let reference = |j: usize| -> E {
        let v = E::var(&name(j), Target::Decl(j));
        if rk[j] == 1 {
            E::App {
                f: Box::new(v),
                args: vec![E::Obj(vec![])],
            }
        } else {
            v
        }
    };
    let mut decls = Vec::new();
    for i in 0..n {
        let body_props: Vec<E> = edges[i].iter().enumerate().map(|(k, j)| prop(&format!("e{k}"), reference(*j))).collect();
        let (params, rhs, ty) = match kinds[i] {
            0 => (vec![], obj(body_props), Ty::Obj),
            1 => {
                let mut ps = vec![prop("p", E::var("x", Target::Param(i, 0)))];
                ps.extend(body_props);
                (vec!["x".to_owned()], obj(ps), Ty::Fun(vec![Ty::Obj], Box::new(Ty::Obj)))
            }
            _ => {
                let j = edges[i][0];
                let ty = match rk[i] {
                    0 => Ty::Obj,
                    1 => Ty::Fun(vec![Ty::Obj], Box::new(Ty::Obj)),
                    _ => Ty::Text, // unresolved: not cuttable
                };
                (vec![], E::var(&name(j), Target::Decl(j)), ty)
            }
        };
        decls.push(Decl {
            module: 0,
            name: name(i),
            params,
            anns: vec![],
            rhs,
            ty,
        });
    }
    // accepted iff every cycle contains a cuttable declaration: remove cuttable nodes, the rest must be acyclic
    let cuttable: Vec<bool> = (0..n).map(|i| kinds[i] != 1 && rk[i] == 0).collect();
    let mut accepted = true;
    for s in 0..n {
        if cuttable[s] {
            continue;
        }
        let mut stack: Vec<usize> = edges[s].clone();
        let mut seen = vec![false; n];
        while let Some(j) = stack.pop() {
            if cuttable[j] {
                continue;
            }
            if j == s {
                accepted = false;
                break;
            }
            if seen[j] {
                continue;
            }
            seen[j] = true;
            stack.extend(edges[j].iter().copied());
        }
    }
    let mut stmts: Vec<Stmt> = (0..n).map(|i| Stmt::Let { id: i }).collect();
    rng.shuffle(&mut stmts);
    stmts.push(res("g", obj(vec![prop("root", reference(0))])));
    (
        Program {
            modules: vec![Module {
                file: "main.oal".into(),
                stmts,
            }],
            decls,
            n_recs: 0,
        },
        accepted,
    )
}

fn count_implicit(doc: &Value) -> usize {
    doc.pointer("/components/schemas")
        .and_then(Value::as_object)
        .map(|m| m.keys().filter(|k| is_implicit(k)).count())
        .unwrap_or(0)
}

fn check_positive(src: &Sources, exp: &Value, max_implicit: usize, family: &str, st: &mut Stats) -> Vec<Violation> {
    let out = pipeline::run(src, None);
    st.inc(&format!("{family}:{}", out.class()));
    match &out {
        Outcome::Doc { json: got, .. } => {
            let mut v = Vec::new();
            if let Some((ptr, l, r)) = first_diff(&canon(got), &canon(exp)) {
                v.push(Violation::new(
                    "the $ref graph of the document does not unfold to the recursive schema the program denotes",
                    json!({"signature": format!("C09 unfolding-differs:{}", diff_class(&ptr)), "pointer": ptr,
                           "implementation": clip_doc(&l), "reference": clip_doc(&r)}),
                ));
            } else {
                st.inc("unfoldings_equal");
            }
            let n = count_implicit(got);
            st.add("implicit_components_emitted", n as u64);
            if n > max_implicit {
                v.push(Violation::new(
                    "more implicit components than recursion points evaluated: an instantiation is emitted more than once",
                    json!({"signature": "C09 instantiation-emitted-twice", "emitted": n, "evaluated": max_implicit}),
                ));
            }
            v
        }
        Outcome::Rejected(e) => vec![Violation::new(
            "a program whose every cycle passes through a schema declaration is rejected",
            json!({"signature": format!("C09 cuttable-rejected:{}", e.kind), "error": e.message}),
        )],
        Outcome::EvalError(e) => vec![Violation::new(
            "a recursive program evaluated to an error",
            json!({"signature": format!("C09 eval-error:{}", e.kind), "error": e.message}),
        )],
        _ => {
            st.inc("crash_left_to_C01");
            vec![]
        }
    }
}

pub fn case(seed: u64, idx: u64, st: &mut Stats) -> Option<(Sources, Value, usize, &'static str)> {
    if idx % 4 == 1 {
        let mut rng = Rng::for_case(seed, "c09graph", idx);
        // accepted graphs only here; rejected ones are produced by the negative family
        for _ in 0..20 {
            let (p, ok) = decl_graph(&mut rng);
            if !ok {
                continue;
            }
            return match expected(&p) {
                Ok(Expected::Doc { doc, implicit_components, .. }) => Some((sources_of(&print_program(&p)), doc, implicit_components, "declaration-graph")),
                other => {
                    st.inc("scenario_reference_undefined");
                    st.sample(|| json!({"scenario": "declaration-graph", "reference": format!("{other:?}"), "sources": sources_of(&print_program(&p)).to_json()}));
                    None
                }
            };
        }
        return None;
    }
    if idx % 4 == 3 {
        let mut rng = Rng::for_case(seed, "c09sc", idx);
        let (p, fam) = scenario(&mut rng);
        match expected(&p) {
            Ok(Expected::Doc {
                doc,
                rec_evaluations,
                implicit_components,
                ..
            }) => {
                let src = sources_of(&print_program(&p));
                let _ = rec_evaluations;
                Some((src, doc, implicit_components, fam))
            }
            other => {
                st.inc("scenario_reference_undefined");
                st.sample(|| json!({"scenario": fam, "reference": format!("{other:?}")}));
                None
            }
        }
    } else {
        let c = gen_wt_case(seed, "c09", idx, &cfg(), st)?;
        match &c.expected {
            Expected::Doc {
                doc,
                implicit_components,
                ..
            } => Some((c.sources.clone(), doc.clone(), *implicit_components, "wt-recursive")),
            _ => None,
        }
    }
}

impl Workload for Recursion {
    fn len(&self) -> u64 {
        self.n
    }
    fn case_json(&self, seed: u64, idx: u64) -> Value {
        let mut st = Stats::new();
        if idx % 10 == 9 {
            let mut rng = Rng::for_case(seed, "c09neg", idx);
            let (t, fam) = uncuttable(&mut rng);
            return json!({"negative": fam, "sources": Sources::single(&t).to_json()});
        }
        match case(seed, idx, &mut st) {
            Some((src, doc, n, fam)) => json!({"sources": src.to_json(), "expected": doc, "max_implicit": n, "family": fam}),
            None => json!({"skipped": true}),
        }
    }
    fn run(&self, seed: u64, idx: u64, st: &mut Stats) -> Vec<Violation> {
        if idx % 10 == 9 {
            let mut rng = Rng::for_case(seed, "c09neg", idx);
            let (t, fam) = uncuttable(&mut rng);
            return check_negative(&Sources::single(&t), fam, st);
        }
        let Some((src, doc, n, fam)) = case(seed, idx, st) else { return vec![] };
        let has_cycle = doc.to_string().contains("hash-");
        let v = check_positive(&src, &doc, n, fam, st);
        if has_cycle {
            st.nontrivial(hash64(&src.files));
            st.sample(|| json!({"family": fam, "sources": src.to_json(), "implicit_components_expected_at_most": n}));
        }
        v
    }
    fn run_json(&self, case: &Value, st: &mut Stats) -> Vec<Violation> {
        if case.get("skipped").is_some() {
            return vec![];
        }
        let src = Sources::from_json(&case["sources"]);
        if let Some(f) = case.get("negative") {
            return check_negative(&src, f.as_str().unwrap_or("negative"), st);
        }
        check_positive(
            &src,
            &case["expected"],
            case["max_implicit"].as_u64().unwrap_or(0) as usize,
            case["family"].as_str().unwrap_or("replay"),
            st,
        )
    }
    fn chunk(&self) -> u64 {
        100
    }
}

fn check_negative(src: &Sources, fam: &str, st: &mut Stats) -> Vec<Violation> {
    let out = pipeline::run(src, None);
    st.inc(&format!("negative:{fam}:{}", out.class()));
    st.nontrivial(hash64(&src.files));
    match out {
        Outcome::Rejected(e) if e.kind == "InvalidType" => {
            st.inc("uncuttable_rejected");
            vec![]
        }
        o => vec![Violation::new(
            "a cycle with no schema to cut at was not rejected with a type error",
            json!({"signature": format!("C09 uncuttable-not-rejected:{fam}:{}", o.class()), "sources": src.to_json()}),
        )],
    }
}

pub fn run(ctx: &Ctx) -> i32 {
    let mut acc = Acc::new(ctx);
    let wl = Recursion {
        n: if ctx.quick() { 20_000 } else { 1_000_000 },
    };
    acc.pool(&wl, "c09", true);
    if acc.stats.get("uncuttable_rejected") == 0 {
        acc.inconclusive.push("no uncuttable cycle was observed".into());
    }
    if acc.stats.get("scenario_reference_undefined") > 0 {
        acc.inconclusive.push("a hand-shaped scenario has no reference semantics (harness bug)".into());
    }
    acc.finish(
        "exploration",
        "recursion-biased G-wt programs (back edges to cut points preferred, cycles through function bodies, rec inside functions, recursion through imported modules) and five hand-shaped scenario families with random parameters (rec in a function applied 1-4 times with equal/different arguments, mutual rings of 1-5 declarations optionally in an imported module, nested rec, recursive relation + unguarded recursion, cycle through a function body); document compared with the reference up to bisimilarity of implicit components (the unfolding), number of implicit components bounded by the reference's evaluated recursion points; every tenth case a cycle with nothing to cut at, which must be rejected; termination by the pool watchdog; non-trivial = the expected document has an implicit component, or a negative case; distinct by source hash",
        if ctx.quick() { 300 } else { 3000 },
        false,
        &["reference semantics of DESIGN.md Appendix A; bisimulation-based canonical form (DESIGN.md 3.4)"],
        json!({}),
    )
}
