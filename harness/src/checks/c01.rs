//! C01: accepted programs never go wrong. Crash monitor over load -> eval -> emit on whatever the
//! checker accepts: G-wt programs, kind-breaking mutants, token/byte mutants, corpus, nesting families.

use super::explore::*;
use super::{Acc, Ctx};
use crate::drive::pipeline::{self, Outcome, Sources};
use crate::pool::{Violation, Workload};
use crate::util::{hash64, Stats};
use serde_json::{json, Value};

pub struct Explore {
    pub n: u64,
}

/// Violations of C01 in one pipeline outcome.
pub fn judge(src: &Sources, out: &Outcome, cross: bool, shapes: &[&str]) -> Vec<Violation> {
    match out {
        Outcome::Panic {
            stage,
            accepted: true,
            info,
        } => {
            // In the trigger shape of the open finding on cross-module instantiation any cast may fail with
            // any value: the signature names the failing cast only. Elsewhere it also names the value's variant.
            let sig = if cross {
                format!("C01 panic in {stage}: {} [cross-module-application]", info.class())
            } else {
                // the two open findings about the recursion placeholder are keyed by the failing cast *and* their
                // trigger shape: the same cast failing in a program without the shape is a different violation
                let s = info.signature();
                let tag = if s.starts_with("not a relation: Recursion") && shapes.contains(&"alias-on-cycle") {
                    " [alias-on-cycle]"
                } else if s.starts_with("not a uri: Recursion") && shapes.contains(&"uri-kinded-declaration-on-cycle") {
                    " [uri-kinded-declaration-on-cycle]"
                } else {
                    ""
                };
                format!("C01 panic in {stage}: {s}{tag}")
            };
            vec![Violation::new(
                "accepted program panicked in the back end",
                json!({"signature": sig,
                       "message": info.message, "location": info.location}),
            )]
        }
        Outcome::EvalError(e) => {
            let located = e.span.as_ref().is_some_and(|sp| {
                src.files.iter().any(|(n, t)| {
                    Sources::locator(n).url().as_str() == sp.loc
                        && sp.start <= sp.end
                        && sp.end <= t.len() + 1
                        && t.is_char_boundary(sp.start.min(t.len()))
                        && t.is_char_boundary(sp.end.min(t.len()))
                })
            });
            if located {
                vec![]
            } else {
                vec![Violation::new(
                    "evaluation error without a location inside its module",
                    json!({"signature": format!("C01 unlocated-eval-error:{}", e.kind), "error": e.message, "span": format!("{:?}", e.span)}),
                )]
            }
        }
        _ => vec![],
    }
}

fn run_sources(src: &Sources, origin: &str, cross: bool, shapes: &[&str], st: &mut Stats) -> Vec<Violation> {
    let out = pipeline::run(src, None);
    let o = origin.split(':').next().unwrap_or(origin);
    st.inc(&format!("{o}:{}", out.class()));
    if out.accepted() {
        st.inc("accepted");
        if o != "wt" && !o.starts_with("corpus") {
            st.nontrivial(hash64(&src.files));
            st.sample(|| json!({"origin": origin, "outcome": out.class(), "sources": src.to_json()}));
        } else {
            st.inc("accepted_unmutated");
        }
    }
    judge(src, &out, cross, shapes)
}

impl Workload for Explore {
    fn len(&self) -> u64 {
        self.n
    }
    fn case_json(&self, seed: u64, idx: u64) -> Value {
        let c = explore_case(seed, "explore", idx);
        json!({"sources": c.sources.to_json(), "origin": c.origin, "cross_module_app": c.cross_module_app, "shapes": c.shapes})
    }
    fn run(&self, seed: u64, idx: u64, st: &mut Stats) -> Vec<Violation> {
        let c = explore_case(seed, "explore", idx);
        run_sources(&c.sources, &c.origin, c.cross_module_app, &c.shapes, st)
    }
    fn run_json(&self, case: &Value, st: &mut Stats) -> Vec<Violation> {
        let src = Sources::from_json(&case["sources"]);
        run_sources(
            &src,
            case["origin"].as_str().unwrap_or("replay"),
            case["cross_module_app"].as_bool().unwrap_or(false),
            &super::explore::ALL_SHAPES
                .iter()
                .copied()
                .filter(|t| case["shapes"].as_array().is_some_and(|a| a.iter().any(|x| x.as_str() == Some(*t))))
                .collect::<Vec<_>>(),
            st,
        )
    }
    fn chunk(&self) -> u64 {
        200
    }
}

/// The recursive programs of C09's workload (declaration graphs with self loops and mutual recursion, `rec` terms in
/// applied functions, recursion through imports and twins) and its cycles with nothing to cut at: whatever the checker
/// accepts of them is evaluated and emitted, and only crashes are judged here.
pub struct RecGraphs {
    pub n: u64,
}

impl RecGraphs {
    fn sources(&self, seed: u64, idx: u64) -> Option<(Sources, String)> {
        if idx % 10 == 9 {
            let mut rng = crate::util::Rng::for_case(seed, "c01rec-neg", idx);
            let (t, fam) = super::c09::uncuttable(&mut rng);
            return Some((Sources::single(&t), format!("recgraph-uncuttable:{fam}")));
        }
        let mut st = Stats::new();
        super::c09::case(seed ^ 0x5eed_c01, idx, &mut st).map(|(src, _, _, fam)| (src, format!("recgraph:{fam}")))
    }
}

impl Workload for RecGraphs {
    fn len(&self) -> u64 {
        self.n
    }
    fn case_json(&self, seed: u64, idx: u64) -> Value {
        match self.sources(seed, idx) {
            Some((src, origin)) => json!({"sources": src.to_json(), "origin": origin}),
            None => json!({"skipped": true}),
        }
    }
    fn run(&self, seed: u64, idx: u64, st: &mut Stats) -> Vec<Violation> {
        let Some((src, origin)) = self.sources(seed, idx) else { return vec![] };
        run_sources(&src, &origin, src.files.len() > 1, &super::explore::ALL_SHAPES, st)
    }
    fn run_json(&self, case: &Value, st: &mut Stats) -> Vec<Violation> {
        if case.get("skipped").is_some() {
            return vec![];
        }
        let src = Sources::from_json(&case["sources"]);
        run_sources(&src, case["origin"].as_str().unwrap_or("replay"), src.files.len() > 1, &super::explore::ALL_SHAPES, st)
    }
    fn chunk(&self) -> u64 {
        100
    }
}

/// Nesting-depth families (every bracket form, application / rec / declaration chains), all accepted.
pub struct Depth;

pub const DEPTHS: [usize; 10] = [1, 2, 5, 10, 25, 50, 100, 150, 190, 200];

pub fn depth_program(family: usize, d: usize) -> Option<String> {
    let rep = |s: &str| s.repeat(d);
    Some(match family {
        0 => format!("let a = {}{{}}{};\nres / on get -> a;", rep("("), rep(")")),
        1 => format!("let a = {}num{};\nres / on get -> a;", rep("["), rep("]")),
        2 => format!("let a = {}{{}}{};\nres / on get -> a;", rep("{ 'p "), rep(" }")),
        3 => {
            // application chain
            let mut s = String::from("let f0 x = x;\n");
            for i in 1..=d {
                s.push_str(&format!("let f{i} x = f{} x;\n", i - 1));
            }
            s.push_str(&format!("res / on get -> f{d} {{}};"));
            s
        }
        4 => {
            // declaration chain
            let mut s = String::new();
            for i in 0..d {
                s.push_str(&format!("let a{i} = a{};\n", i + 1));
            }
            s.push_str(&format!("let a{d} = {{}};\nres / on get -> a0;"));
            s
        }
        5 => {
            // nested rec
            let mut s = String::from("let a = ");
            for i in 0..d {
                s.push_str(&format!("rec x{i} {{ 'p{i} "));
            }
            s.push_str("{ 'leaf x0 }");
            s.push_str(&rep(" }"));
            s.push_str(";\nres / on get -> a;");
            s
        }
        6 => format!("let a = {} num;\nres / on get -> {{ 'q a }};", "num | ".repeat(d)),
        7 => format!("let a = {} {{}};\nres / on get -> a;", "{} & ".repeat(d)),
        8 => format!("res /{} on get -> <>;", "a/".repeat(d)),
        9 => {
            // mutual recursion ring through objects
            let mut s = String::new();
            for i in 0..d {
                s.push_str(&format!("let r{i} = {{ 'n r{} }};\n", (i + 1) % d));
            }
            s.push_str("res / on get -> r0;");
            s
        }
        10 => format!("let a = {}{{}}{};\nres / on get -> a;", rep("( # a: 1\n"), rep(" `b: 2`)")),
        11 => format!("res / on get -> {} <>;", "<status=200, {}> :: ".repeat(d)),
        _ => return None,
    })
}

impl Workload for Depth {
    fn len(&self) -> u64 {
        (12 * DEPTHS.len()) as u64
    }
    fn case_json(&self, _seed: u64, idx: u64) -> Value {
        let fam = idx as usize / DEPTHS.len();
        let d = DEPTHS[idx as usize % DEPTHS.len()];
        json!({"sources": Sources::single(&depth_program(fam, d).unwrap_or_default()).to_json(), "origin": format!("depth:f{fam}:d{d}"), "cross_module_app": false})
    }
    fn run(&self, seed: u64, idx: u64, st: &mut Stats) -> Vec<Violation> {
        let c = self.case_json(seed, idx);
        let src = Sources::from_json(&c["sources"]);
        let out = pipeline::run(&src, None);
        st.inc(&format!("depth:{}", out.class()));
        st.max("max_depth_accepted", if out.accepted() { DEPTHS[idx as usize % DEPTHS.len()] as u64 } else { 0 });
        let mut v = judge(&src, &out, false, &[]);
        if !out.accepted() {
            v.push(Violation::new(
                "a nesting family program that the language accepts was rejected",
                json!({"signature": format!("C01 depth-family-rejected:{}", out.class()), "origin": c["origin"]}),
            ));
        }
        v
    }
    fn run_json(&self, case: &Value, st: &mut Stats) -> Vec<Violation> {
        let src = Sources::from_json(&case["sources"]);
        let out = pipeline::run(&src, None);
        st.inc(&format!("depth:{}", out.class()));
        judge(&src, &out, false, &[])
    }
    fn chunk(&self) -> u64 {
        4
    }
    fn case_timeout_s(&self) -> u64 {
        120
    }
}

pub fn run(ctx: &Ctx) -> i32 {
    let mut acc = Acc::new(ctx);
    let wl = Explore {
        n: if ctx.quick() { 100_000 } else { 3_000_000 },
    };
    acc.pool(&wl, "explore", true);
    acc.pool(&Depth, "c01depth", true);
    let rg = RecGraphs {
        n: if ctx.quick() { 10_000 } else { 300_000 },
    };
    acc.pool(&rg, "c01rec", true);
    let accepted_mutants = acc.stats.get("nontrivial");
    if accepted_mutants < 100 {
        acc.inconclusive.push(format!("only {accepted_mutants} accepted mutants were observed"));
    }
    acc.witnesses();
    if !ctx.quick() {
        acc.miri(0, 40);
    }
    acc.finish(
        "exploration",
        "per 20 cases: 3 G-wt programs, 10 kind-breaking AST mutants of G-wt programs (subterm replaced by a snippet or variable of another kind, subterms swapped, arity changed, subterm wrapped), 4 token/byte mutants, 3 corpus programs or their mutants; plus 12 nesting families at depths 1..200; plus the recursive programs of C09's generator (declaration graphs with self loops and mutual recursion, rec terms in applied functions, recursion through imports and twin modules, and cycles with nothing to cut at); each loaded, and if accepted evaluated and emitted in a worker process; non-trivial = a mutant or nesting program that the checker accepted (so evaluation ran on it); distinct by source hash",
        if ctx.quick() { 300 } else { 3000 },
        false,
        &["panics are caught per stage; aborts and hangs are attributed by the worker pool (DESIGN.md 3.2)",
          "evaluation is bounded by the generator's size limits; a watchdog firing twice is reported as a hang"],
        json!({}),
    )
}
