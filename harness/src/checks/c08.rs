//! C08: identifiers bind lexically and evaluation honours the same binding.
//! (i) definition() of every Variable node vs the generator's binding table; (ii) unbound uses and
//! duplicate declarations are located errors; (iii) documents of shadowing programs vs the reference.

use super::c02::compare;
use super::common::*;
use super::{Acc, Ctx};
use crate::drive::pipeline::{self, Sources};
use crate::gen::ast::*;
use crate::gen::print::{print_program, PrintedModule, Role};
use crate::gen::wt::Cfg;
use crate::oracle::tree::{variables, DefInfo};
use crate::pool::{Violation, Workload};
use crate::reference::eval::Expected;
use crate::util::{guard, hash64, Rng, Stats};
use serde_json::{json, Value};

pub struct Binding {
    pub n: u64,
}

pub fn cfg() -> Cfg {
    Cfg {
        pool: 5,
        max_decls: 7,
        max_modules: 4,
        shadow_pct: 15,
        ..Cfg::default()
    }
}

/// The generator's binding table in terms of source ranges: for every identifier use, where its binder is.
#[derive(Clone, Debug, PartialEq)]
pub enum Binder {
    Internal,
    /// (module url, range) of the binding construct: whole declaration, or the binder token
    At(String, (usize, usize)),
}

pub fn binding_table(p: &Program, printed: &[PrintedModule]) -> Vec<(String, (usize, usize), Binder)> {
    let url = |m: usize| Sources::locator(&printed[m].file).url().to_string();
    let mut out = Vec::new();
    for (mi, pm) in printed.iter().enumerate() {
        for o in &pm.occs {
            if let Role::Use(t) = &o.role {
                let b = match t {
                    Target::Builtin(_) => Binder::Internal,
                    Target::Decl(d) => {
                        let dm = p.decls[*d].module;
                        let r = printed[dm].decl_ranges.iter().find(|(id, _)| id == d).map(|(_, r)| r.clone()).unwrap();
                        Binder::At(url(dm), (r.start, r.end))
                    }
                    Target::Param(d, i) => {
                        let dm = p.decls[*d].module;
                        let r = printed[dm]
                            .occs
                            .iter()
                            .find(|x| x.role == Role::ParamBinder(*d, *i))
                            .map(|x| x.range.clone())
                            .unwrap();
                        Binder::At(url(dm), (r.start, r.end))
                    }
                    Target::Rec(id) => {
                        // rec binders live in the module of the use
                        let r = pm
                            .occs
                            .iter()
                            .find(|x| x.role == Role::RecBinder(*id))
                            .map(|x| x.range.clone())
                            .unwrap();
                        Binder::At(url(mi), (r.start, r.end))
                    }
                };
                out.push((url(mi), (o.range.start, o.range.end), b));
            }
        }
    }
    out
}

fn check_bindings(src: &Sources, table: &[(String, (usize, usize), Binder)], st: &mut Stats) -> Vec<Violation> {
    let mut out = Vec::new();
    let loaded = match pipeline::load(src) {
        Ok(l) => l,
        Err(_) => {
            st.inc("load_panicked_left_to_C01");
            return out;
        }
    };
    let Some(mods) = loaded.mods else {
        st.inc("wt_rejected_by_implementation");
        return out;
    };
    let vars = match guard(|| variables(&mods)) {
        Ok(v) => v,
        Err(p) => {
            return vec![Violation::new(
                "walking definitions panicked",
                json!({"signature": format!("C08 definition walk panic: {}", p.signature())}),
            )]
        }
    };
    st.add("variable_occurrences", vars.len() as u64);
    if vars.len() != table.len() {
        out.push(Violation::new(
            "number of variable nodes differs from the number of identifier uses written",
            json!({"signature": "C08 variable-count", "tree": vars.len(), "generator": table.len()}),
        ));
        return out;
    }
    for v in &vars {
        let Some((_, _, want)) = table.iter().find(|(m, r, _)| *m == v.module && *r == v.ident) else {
            out.push(Violation::new(
                "a variable node has no identifier use at its span",
                json!({"signature": "C08 stray-variable", "module": v.module, "ident": [v.ident.0, v.ident.1]}),
            ));
            continue;
        };
        let got = match &v.def {
            DefInfo::Internal => Binder::Internal,
            DefInfo::External { module, range, .. } => Binder::At(module.clone(), *range),
            DefInfo::Missing => Binder::At("<missing>".into(), (0, 0)),
        };
        match (&got, want) {
            (Binder::Internal, Binder::Internal) => st.inc("bound:builtin"),
            (Binder::At(m1, r1), Binder::At(m2, r2)) if m1 == m2 && r1 == r2 => {
                st.inc(if *m1 == v.module { "bound:same-module" } else { "bound:imported" })
            }
            _ => {
                if out.len() < 3 {
                    out.push(Violation::new(
                        "identifier use is bound to a different binder than the language's scoping rules give",
                        json!({"signature": "C08 wrong-binder", "module": v.module, "use": [v.ident.0, v.ident.1],
                               "implementation": format!("{got:?}"), "reference": format!("{want:?}")}),
                    ));
                }
            }
        }
    }
    out
}

/// Negative mutation: rename a declaration so that its uses become unbound, or duplicate a declaration.
pub fn negative(p: &Program, rng: &mut Rng) -> Option<(Program, &'static str, Vec<(usize, Target)>)> {
    let mut q = p.clone();
    if rng.chance(1, 4) {
        // a declaration named like a name exported by an unqualified import, with the `use` before or after it:
        // rejected as a duplicate, or bound to the local declaration — never to the import
        let mut cands: Vec<(usize, usize, DeclId)> = Vec::new();
        for (mi, m) in p.modules.iter().enumerate() {
            for (si, s) in m.stmts.iter().enumerate() {
                if let Stmt::Use { target, qual: None, .. } = s {
                    for (d, dd) in p.decls.iter().enumerate() {
                        if dd.module == *target && !dd.is_ref() {
                            cands.push((mi, si, d));
                        }
                    }
                }
            }
        }
        if cands.is_empty() {
            return None;
        }
        let (mi, si, d) = *rng.pick(&cands);
        let id = q.decls.len();
        q.decls.push(Decl {
            module: mi,
            name: p.decls[d].name.clone(),
            params: vec![],
            anns: vec![],
            rhs: E::Obj(vec![]),
            ty: Ty::Obj,
        });
        if rng.chance(1, 2) {
            // the declaration first, the import after it
            let u = q.modules[mi].stmts.remove(si);
            q.modules[mi].stmts.insert(0, Stmt::Let { id });
            let at = rng.range(1, q.modules[mi].stmts.len());
            q.modules[mi].stmts.insert(at, u);
        } else {
            let at = rng.range(si + 1, q.modules[mi].stmts.len());
            q.modules[mi].stmts.insert(at, Stmt::Let { id });
        }
        return Some((q, "import-clash", vec![(mi, Target::Decl(id)), (mi, Target::Decl(d))]));
    }
    if rng.chance(1, 2) {
        // unbound: pick a declaration with at least one use
        let mut used: Vec<DeclId> = Vec::new();
        let mut exprs: Vec<&E> = p.decls.iter().map(|d| &d.rhs).collect();
        for m in &p.modules {
            for s in &m.stmts {
                if let Stmt::Res { e } = s {
                    exprs.push(e);
                }
            }
        }
        for e in exprs {
            used.extend(Program::mentions(e));
        }
        used.sort();
        used.dedup();
        // a name that a shadow module also declares under the same qualifier stays bound when its declaration goes
        used.retain(|d| {
            !p.decls
                .iter()
                .any(|o| o.name == p.decls[*d].name && p.modules[o.module].file.ends_with("zshadow.oal"))
        });
        if used.is_empty() {
            return None;
        }
        let d = *rng.pick(&used);
        let fresh = if p.decls[d].is_ref() { "@zz-unbound" } else { "zz_unbound" };
        q.decls[d].name = fresh.to_owned();
        Some((q, "unbound", vec![(p.decls[d].module, Target::Decl(d))]))
    } else {
        let d = rng.below(p.decls.len().max(1));
        if p.decls.is_empty() {
            return None;
        }
        let m = p.decls[d].module;
        let mut dup = p.decls[d].clone();
        dup.params.clear();
        dup.anns.clear();
        dup.rhs = E::Obj(vec![]);
        dup.ty = Ty::Obj;
        let id = q.decls.len();
        q.decls.push(dup);
        let pos = rng.below(q.modules[m].stmts.len() + 1);
        // keep `use` statements first
        let first_non_use = q.modules[m]
            .stmts
            .iter()
            .position(|s| !matches!(s, Stmt::Use { .. }))
            .unwrap_or(q.modules[m].stmts.len());
        q.modules[m].stmts.insert(pos.max(first_non_use), Stmt::Let { id });
        Some((q, "duplicate", vec![(m, Target::Decl(d))]))
    }
}

fn check_import_clash(q: &Program, local: DeclId, imported: DeclId, module: usize, st: &mut Stats) -> Vec<Violation> {
    let printed = print_program(q);
    let src = sources_of(&printed);
    let Ok(loaded) = pipeline::load(&src) else { return vec![] };
    match (&loaded.mods, &loaded.err) {
        (None, Some(e)) => {
            let info = pipeline::lerr_info(e);
            st.inc(&format!("negative:import-clash:rejected:{}", info.kind));
            // other errors can precede it only if they are errors of another module compiled earlier
            vec![]
        }
        (Some(mods), _) => {
            st.inc("negative:import-clash:accepted");
            // every unqualified use of the name in that module must be bound to the local declaration
            let name = &q.decls[local].name;
            let url = Sources::locator(&printed[module].file).url().to_string();
            let local_range = printed[module].decl_ranges.iter().find(|(id, _)| *id == local).map(|(_, r)| (r.start, r.end));
            let text = &printed[module].text;
            for v in variables(mods) {
                if v.module == url && v.var == v.ident && &text[v.ident.0..v.ident.1] == name.as_str() {
                    // skip uses shadowed by a parameter or rec binder: they are bindings
                    if let DefInfo::External { range, is_declaration: true, module: dm, .. } = &v.def {
                        if Some(*range) != local_range || *dm != url {
                            let _ = imported;
                            return vec![Violation::new(
                                "a use of a name declared in the module is bound to a same-named import",
                                json!({"signature": "C08 import-overrides-local-declaration", "name": name, "sources": src.to_json()}),
                            )];
                        }
                    }
                }
            }
            vec![]
        }
        _ => vec![],
    }
}

fn check_negative(q: &Program, kind: &str, victim: &(usize, Target), st: &mut Stats) -> Vec<Violation> {
    let printed = print_program(q);
    let src = sources_of(&printed);
    let out = pipeline::run(&src, None);
    st.inc(&format!("negative:{kind}:{}", out.class()));
    let want_kind = if kind == "unbound" { "NotInScope" } else { "InvalidIdentifier" };
    match &out {
        pipeline::Outcome::Rejected(e) if e.kind == want_kind => {
            // located: for unbound uses the span must be one of the now-unbound uses
            if kind == "unbound" {
                let Target::Decl(d) = &victim.1 else { return vec![] };
                let ok = e.span.as_ref().is_some_and(|sp| {
                    printed.iter().any(|pm| {
                        Sources::locator(&pm.file).url().as_str() == sp.loc
                            && pm.occs.iter().any(|o| {
                                o.role == Role::Use(Target::Decl(*d)) && {
                                    let start = o.qual.as_ref().map(|q| q.start).unwrap_or(o.range.start);
                                    start == sp.start && o.range.end == sp.end
                                }
                            })
                    })
                });
                if !ok {
                    return vec![Violation::new(
                        "the 'not in scope' error is not located on an unbound use",
                        json!({"signature": "C08 unbound-error-misplaced", "span": format!("{:?}", e.span), "sources": src.to_json()}),
                    )];
                }
            } else {
                let ok = e.span.as_ref().is_some_and(|sp| {
                    printed.iter().any(|pm| {
                        Sources::locator(&pm.file).url().as_str() == sp.loc
                            && pm.occs.iter().any(|o| {
                                matches!(o.role, Role::DeclName(_)) && o.range.start == sp.start && o.range.end == sp.end
                            })
                    })
                });
                if !ok {
                    return vec![Violation::new(
                        "the duplicate-identifier error is not located on a declaration name",
                        json!({"signature": "C08 duplicate-error-misplaced", "span": format!("{:?}", e.span), "sources": src.to_json()}),
                    )];
                }
            }
            st.inc("negative_located_ok");
            vec![]
        }
        o => vec![Violation::new(
            if kind == "unbound" {
                "a program with an unbound identifier use is not rejected as 'not in scope'"
            } else {
                "a program with a duplicate declaration is not rejected as 'invalid identifier'"
            },
            json!({"signature": format!("C08 {kind}-not-reported:{}", o.class()), "sources": src.to_json()}),
        )],
    }
}

impl Binding {
    fn case(&self, seed: u64, idx: u64, st: &mut Stats) -> Option<WtCase> {
        let mut c = gen_wt_case(seed, "c08", idx, &cfg(), st)?;
        if idx % 2 == 1 {
            with_trivia(&mut c, seed, "c08", idx);
        }
        Some(c)
    }
}

fn table_json(t: &[(String, (usize, usize), Binder)]) -> Value {
    Value::Array(
        t.iter()
            .map(|(m, r, b)| match b {
                Binder::Internal => json!([m, r.0, r.1, "internal"]),
                Binder::At(bm, br) => json!([m, r.0, r.1, bm, br.0, br.1]),
            })
            .collect(),
    )
}

fn table_from_json(v: &Value) -> Vec<(String, (usize, usize), Binder)> {
    v.as_array()
        .map(|a| {
            a.iter()
                .map(|e| {
                    let m = e[0].as_str().unwrap_or("").to_owned();
                    let r = (e[1].as_u64().unwrap_or(0) as usize, e[2].as_u64().unwrap_or(0) as usize);
                    let b = if e[3] == "internal" {
                        Binder::Internal
                    } else {
                        Binder::At(
                            e[3].as_str().unwrap_or("").to_owned(),
                            (e[4].as_u64().unwrap_or(0) as usize, e[5].as_u64().unwrap_or(0) as usize),
                        )
                    };
                    (m, r, b)
                })
                .collect()
        })
        .unwrap_or_default()
}

impl Workload for Binding {
    fn len(&self) -> u64 {
        self.n
    }
    fn case_json(&self, seed: u64, idx: u64) -> Value {
        let mut st = Stats::new();
        match self.case(seed, idx, &mut st) {
            Some(c) => {
                let t = binding_table(&c.prog, &c.printed);
                let exp = match &c.expected {
                    Expected::Doc { doc, .. } => doc.clone(),
                    _ => Value::Null,
                };
                json!({"sources": c.sources.to_json(), "bindings": table_json(&t), "expected": exp})
            }
            None => json!({"skipped": true}),
        }
    }
    fn run(&self, seed: u64, idx: u64, st: &mut Stats) -> Vec<Violation> {
        let Some(c) = self.case(seed, idx, st) else { return vec![] };
        let table = binding_table(&c.prog, &c.printed);
        let mut v = check_bindings(&c.sources, &table, st);
        // shadow census
        let mut shadowing = 0;
        for d in &c.prog.decls {
            for prm in &d.params {
                if c.prog.decls.iter().any(|o| o.name == *prm) {
                    shadowing += 1;
                }
            }
        }
        st.add("params_shadowing_a_declaration_name", shadowing);
        if let Expected::Doc { doc, .. } = &c.expected {
            v.extend(compare(&c.sources, Some(doc), false, st));
        }
        // negative variants
        let mut rng = Rng::for_case(seed, "c08neg", idx);
        if let Some((q, kind, victims)) = negative(&c.prog, &mut rng) {
            if kind == "import-clash" {
                if let (Target::Decl(l), Target::Decl(i)) = (&victims[0].1, &victims[1].1) {
                    v.extend(check_import_clash(&q, *l, *i, victims[0].0, st));
                }
            } else {
                v.extend(check_negative(&q, kind, &victims[0], st));
            }
        }
        if table.len() >= 5 {
            st.nontrivial(hash64(&c.sources.files));
            st.sample(|| json!({"sources": c.sources.to_json(), "uses": table.len()}));
        }
        v
    }
    fn run_json(&self, case: &Value, st: &mut Stats) -> Vec<Violation> {
        if case.get("skipped").is_some() {
            return vec![];
        }
        if let Some(src) = case.get("sources") {
            let src = Sources::from_json(src);
            let mut v = Vec::new();
            if let Some(b) = case.get("bindings") {
                v.extend(check_bindings(&src, &table_from_json(b), st));
            }
            if let Some(e) = case.get("expected") {
                if !e.is_null() {
                    v.extend(compare(&src, Some(e), false, st));
                }
            }
            return v;
        }
        vec![]
    }
    fn chunk(&self) -> u64 {
        100
    }
}

pub fn run(ctx: &Ctx) -> i32 {
    let mut acc = Acc::new(ctx);
    let wl = Binding {
        n: if ctx.quick() { 25_000 } else { 1_000_000 },
    };
    acc.pool(&wl, "c08", false);
    // Canary: a swapped binder must be flagged.
    let canary = {
        let src = Sources::single("let a = {}; let f a = a; res / on get -> f a;");
        // deliberately wrong table: the `a` in the body bound to the declaration instead of the parameter
        let wrong = vec![
            ("file:///ws/main.oal".to_owned(), (22usize, 23usize), Binder::At("file:///ws/main.oal".into(), (0, 11))),
            ("file:///ws/main.oal".to_owned(), (40, 41), Binder::At("file:///ws/main.oal".into(), (12, 24))),
            ("file:///ws/main.oal".to_owned(), (42, 43), Binder::At("file:///ws/main.oal".into(), (0, 11))),
        ];
        let mut st = Stats::new();
        !check_bindings(&src, &wrong, &mut st).is_empty()
    };
    acc.observed.insert("canary_swapped_binder_flagged".into(), json!(canary));
    if !canary {
        acc.inconclusive.push("binding canary did not fire".into());
    }
    let total = acc.evaluations.max(1);
    let rejected = acc.stats.get("wt_rejected_by_implementation");
    if rejected * 50 > total {
        acc.inconclusive.push(format!("{rejected} of {total} generated programs were rejected by the implementation"));
    }
    if acc.stats.get("negative_located_ok") == 0 {
        acc.inconclusive.push("no negative (unbound/duplicate) case was observed".into());
    }
    acc.finish(
        "exploration",
        "G-wt programs with a 5-name identifier pool (parameters, rec binders, declarations, qualified and unqualified imports share names); every Variable node's definition() is compared with the generator's binding table by source range; the document is compared with the reference (C02 oracle); one negative variant per program (declaration renamed away -> unbound use, or declaration duplicated); non-trivial = >=5 identifier uses; distinct by source hash",
        if ctx.quick() { 500 } else { 5000 },
        false,
        &["the generator's binding table encodes the scoping rules of the property statement",
          "not demanded: a declaration named like an unqualified import or builtin (never generated)"],
        json!({}),
    )
}
