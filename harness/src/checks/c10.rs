//! C10: modules load once, compile after their imports, import cycles are errors.
//! Offline checker over the call log of a recording in-memory Loader that delegates to the real
//! parse/compile, against the generator's import graph.

use super::{Acc, Ctx};
use crate::drive::pipeline::{self, lerr_info, Event, MemLoader, Sources};
use crate::oracle::canon::{canon, first_diff};
use crate::pool::{Violation, Workload};
use crate::util::{guard, hash64, Rng, Stats};
use oal_compiler::module::Loader;
use serde_json::{json, Value};

#[derive(Clone, Debug)]
pub struct Graph {
    pub n: usize,
    /// edges[i] = list of (target index, spelling variant); target >= n means a missing file
    pub edges: Vec<Vec<(usize, u8)>>,
    /// 0: all modules in one directory; 1: two directories whose files share base names (`m0.oal`, `d/m0.oal`,
    /// `m1.oal`, `d/m1.oal`, ...), so that one relative spelling designates different files from different places
    pub layout: u8,
    /// a module whose body does not compile (an unbound name), if any: a cycle or a missing import anywhere in the
    /// reachable graph is reported in preference to it, and nothing is compiled then
    pub broken: Option<usize>,
}

impl Graph {
    fn in_d(&self, i: usize) -> bool {
        (self.layout == 1 && i % 2 == 1) || (self.layout == 3 && i % 4 == 3)
    }
    fn dir(&self) -> &'static str {
        if self.layout == 3 {
            "d é/"
        } else {
            "d/"
        }
    }
    fn file(&self, i: usize) -> String {
        match self.layout {
            1 => format!("{}m{}.oal", if i % 2 == 1 { "d/" } else { "" }, i / 2),
            // names that differ by ASCII case only
            2 => format!("{}{}.oal", if i % 2 == 1 { "M" } else { "m" }, i / 2),
            // names with blanks and non-ASCII characters (percent-encoded in locators)
            3 => match i % 4 {
                0 => format!("m{i}.oal"),
                1 => format!("sp ace {i}.oal"),
                2 => format!("modèle-{i}.oal"),
                _ => format!("d é/m{i}.oal"),
            },
            _ => format!("m{i}.oal"),
        }
    }
    fn spelled(&self, from: usize, j: usize, variant: u8) -> String {
        let base = self.file(j).rsplit('/').next().unwrap().to_owned();
        let rel = match (self.in_d(from), self.in_d(j)) {
            (false, true) => format!("{}{base}", self.dir()),
            (true, false) => format!("../{base}"),
            _ => base,
        };
        match variant {
            0 => rel,
            1 => format!("./{rel}"),
            2 => format!("x/../{rel}"),
            _ => format!("file:///ws/{}", self.file(j)),
        }
    }
    pub fn sources(&self) -> Sources {
        let mut files = Vec::new();
        for i in 0..self.n {
            let mut t = String::new();
            // modules of different lengths with multi-byte text in front: a position of one module is rarely a valid
            // position of another
            if (i + self.layout as usize) % 3 != 0 {
                t.push_str(&format!("// {}\n", "é😉".repeat(1 + (i * 5) % 17)));
            }
            // names depend on the target (and on the occurrence among equal targets), not on the line position
            let mut names: Vec<String> = Vec::new();
            for (j, _) in self.edges[i].iter() {
                let occ = names.iter().filter(|n| n.starts_with(&format!("q{j}_"))).count();
                names.push(format!("q{j}_{occ}"));
            }
            // `use` statements may stand anywhere at top level: some (by spelling variant) come after the declarations
            let mut late = String::new();
            for (k, (j, v)) in self.edges[i].iter().enumerate() {
                let line = format!("use \"{}\" as {};\n", self.spelled(i, *j, *v), names[k]);
                if (*v as usize + k + i) % 3 == 2 {
                    late.push_str(&line);
                } else {
                    t.push_str(&line);
                }
            }
            t.push_str(&format!("let v = {{ 'k{i} num"));
            for q in &names {
                t.push_str(&format!(", 'via_{q} {q}.v"));
            }
            t.push_str(" };\n");
            t.push_str("let f x = { 'w x };\n");
            if self.broken == Some(i) {
                t.push_str("let zzbroken = zznowhere;\n");
            }
            for q in &names {
                t.push_str(&format!("let g_{q} = {q}.f v;\n"));
            }
            t.push_str(&late);
            if i == 0 {
                t.push_str("res / on get -> v;\n");
            }
            files.push((self.file(i), t));
        }
        Sources { files }
    }
    pub fn reachable(&self) -> Vec<bool> {
        let mut seen = vec![false; self.n];
        let mut stack = vec![0usize];
        while let Some(i) = stack.pop() {
            if i >= self.n || seen[i] {
                continue;
            }
            seen[i] = true;
            for (j, _) in &self.edges[i] {
                stack.push(*j);
            }
        }
        seen
    }
    pub fn has_missing(&self) -> bool {
        let r = self.reachable();
        (0..self.n).any(|i| r[i] && self.edges[i].iter().any(|(j, _)| *j >= self.n))
    }
    pub fn has_cycle(&self) -> bool {
        let r = self.reachable();
        // DFS colouring on the reachable subgraph
        fn visit(g: &Graph, i: usize, col: &mut Vec<u8>) -> bool {
            col[i] = 1;
            for (j, _) in &g.edges[i] {
                if *j >= g.n {
                    continue;
                }
                if col[*j] == 1 || (col[*j] == 0 && visit(g, *j, col)) {
                    return true;
                }
            }
            col[i] = 2;
            false
        }
        let mut col = vec![0u8; self.n];
        (0..self.n).any(|i| r[i] && col[i] == 0 && visit(self, i, &mut col))
    }
    pub fn shape(&self) -> &'static str {
        if self.has_missing() {
            "missing"
        } else if (0..self.n).any(|i| self.reachable()[i] && self.edges[i].iter().any(|(j, _)| *j == i)) {
            "self-loop"
        } else if self.has_cycle() {
            "cycle"
        } else {
            // diamond: some module reachable by two different direct importers
            let r = self.reachable();
            let mut indeg = vec![0; self.n];
            for i in 0..self.n {
                if r[i] {
                    let mut ts: Vec<usize> = self.edges[i].iter().map(|(j, _)| *j).collect();
                    ts.sort();
                    ts.dedup();
                    for j in ts {
                        indeg[j] += 1;
                    }
                }
            }
            if indeg.iter().any(|d| *d > 1) {
                "diamond"
            } else if r.iter().filter(|b| **b).count() > 1 {
                "chain-or-tree"
            } else {
                "single"
            }
        }
    }
    pub fn to_json(&self) -> Value {
        json!({"n": self.n, "edges": self.edges, "layout": self.layout, "broken": self.broken})
    }
    pub fn from_json(v: &Value) -> Graph {
        Graph {
            n: v["n"].as_u64().unwrap_or(1) as usize,
            layout: v["layout"].as_u64().unwrap_or(0) as u8,
            broken: v["broken"].as_u64().map(|b| b as usize),
            edges: v["edges"]
                .as_array()
                .map(|a| {
                    a.iter()
                        .map(|e| {
                            e.as_array()
                                .map(|x| x.iter().map(|p| (p[0].as_u64().unwrap_or(0) as usize, p[1].as_u64().unwrap_or(0) as u8)).collect())
                                .unwrap_or_default()
                        })
                        .collect()
                })
                .unwrap_or_default(),
        }
    }
}

pub struct Loads {
    pub max_exhaustive: usize,
    pub random: u64,
}

impl Loads {
    pub fn new(quick: bool) -> Self {
        Loads {
            max_exhaustive: if quick { 3 } else { 4 },
            random: if quick { 30_000 } else { 2_000_000 },
        }
    }
    fn n_exh(&self) -> u64 {
        (1..=self.max_exhaustive).map(|n| 1u64 << (n * n)).sum()
    }
    pub fn graph(&self, seed: u64, idx: u64) -> (Graph, &'static str) {
        let mut i = idx;
        for n in 1..=self.max_exhaustive {
            let block = 1u64 << (n * n);
            if i < block {
                let mut edges = vec![Vec::new(); n];
                for a in 0..n {
                    for b in 0..n {
                        if (i >> (a * n + b)) & 1 == 1 {
                            edges[a].push((b, 0u8));
                        }
                    }
                }
                return (Graph { n, edges, layout: 0, broken: None }, "exhaustive");
            }
            i -= block;
        }
        let mut rng = Rng::for_case(seed, "c10", i);
        let n = rng.range(2, 8);
        let mut edges = vec![Vec::new(); n];
        let p = rng.range(1, 4);
        for a in 0..n {
            for b in 0..n {
                let forward = b > a;
                if (forward && rng.chance(p as u32 * 12, 100)) || (!forward && rng.chance(2, 100)) {
                    edges[a].push((b, rng.below(4) as u8));
                    if rng.chance(1, 8) {
                        // duplicate use line with another spelling
                        edges[a].push((b, rng.below(4) as u8));
                    }
                }
            }
            if rng.chance(1, 25) {
                edges[a].push((n + rng.below(2), rng.below(3) as u8));
                // ... often behind a target that the module imports twice
                if edges[a].len() > 1 && rng.chance(1, 2) {
                    let (b, _) = edges[a][0];
                    edges[a].insert(1, (b, rng.below(4) as u8));
                }
            }
        }
        let layout = rng.below(4) as u8;
        let broken = if rng.chance(1, 6) { Some(rng.below(n)) } else { None };
        (Graph { n, edges, layout, broken }, "random")
    }
}

struct RunResult {
    log: Vec<Event>,
    ok: bool,
    err_kind: String,
    err_detail: String,
    err_span: Option<(String, usize, usize)>,
    mods: Vec<String>,
    doc: Option<Value>,
    panic: Option<String>,
}

fn run_graph(src: &Sources) -> RunResult {
    let r = guard(|| {
        let mut loader = MemLoader::new(src);
        let main = Sources::locator(&src.files[0].0);
        let res = oal_compiler::module::load(&mut loader, &main);
        (res, loader.log)
    });
    match r {
        Err(p) => RunResult {
            log: vec![],
            ok: false,
            err_kind: String::new(),
            err_detail: String::new(),
            err_span: None,
            mods: vec![],
            doc: None,
            panic: Some(p.signature()),
        },
        Ok((Err(e), log)) => {
            let info = lerr_info(&e);
            let detail = match &e {
                pipeline::LErr::Compiler(c) => match &c.kind {
                    oal_compiler::errors::Kind::InvalidModule(l) => l.url().to_string(),
                    _ => String::new(),
                },
                _ => String::new(),
            };
            RunResult {
                log,
                ok: false,
                err_span: info.span.as_ref().map(|s| (s.loc.clone(), s.start, s.end)),
                err_kind: info.kind,
                err_detail: detail,
                mods: vec![],
                doc: None,
                panic: None,
            }
        }
        Ok((Ok(mods), log)) => {
            let mut names: Vec<String> = mods.locators().map(|l| l.url().to_string()).collect();
            names.sort();
            let doc = guard(|| {
                oal_compiler::eval::eval(&mods).ok().map(|spec| {
                    let api = oal_openapi::Builder::new(spec).into_openapi();
                    serde_json::to_value(&api).unwrap_or(Value::Null)
                })
            });
            match doc {
                Ok(d) => RunResult {
                    log,
                    ok: true,
                    err_kind: String::new(),
                    err_detail: String::new(),
                    err_span: None,
                    mods: names,
                    doc: d,
                    panic: None,
                },
                Err(p) => RunResult {
                    log,
                    ok: true,
                    err_kind: String::new(),
                    err_detail: String::new(),
                    err_span: None,
                    mods: names,
                    doc: None,
                    panic: Some(p.signature()),
                },
            }
        }
    }
}

/// Offline checker of one recorded load against the graph.
fn check_log(g: &Graph, r: &RunResult) -> Vec<String> {
    let mut p = Vec::new();
    if let Some(pn) = &r.panic {
        p.push(format!("panic: {pn}"));
        return p;
    }
    let url = |i: usize| Sources::locator(&g.file(i)).url().to_string();
    let reach = g.reachable();
    let count = |op: &str, u: &str| r.log.iter().filter(|e| e.op == op && e.loc == u).count();
    let pos = |op: &str, u: &str| r.log.iter().position(|e| e.op == op && e.loc == u);
    for i in 0..g.n {
        let u = url(i);
        for op in ["load", "parse", "compile"] {
            let c = count(op, &u);
            if c > 1 {
                p.push(format!("{op} called {c} times for {u}"));
            }
            if !reach[i] && c > 0 {
                p.push(format!("{op} called for {u}, which is not reachable from the main module"));
            }
            if r.ok && reach[i] && c != 1 {
                p.push(format!("{op} called {c} times for reachable module {u} of a successful load"));
            }
        }
    }
    // calls for locators that are not modules of the workspace (other than is_valid probes of missing targets)
    for e in &r.log {
        let known = (0..g.n).any(|i| url(i) == e.loc);
        if !known && e.op != "is_valid" {
            p.push(format!("{} called for unknown locator {}", e.op, e.loc));
        }
    }
    let missing = g.has_missing();
    let cyclic = g.has_cycle();
    let broken = g.broken.is_some_and(|b| reach[b]);
    if broken && !missing && !cyclic {
        // the only thing wrong is the body of one reachable module: a resolution error, after its imports compiled
        if r.ok || r.err_kind != "NotInScope" {
            p.push(format!("a module that does not compile was not reported as such: ok={} {}", r.ok, r.err_kind));
        }
        return p;
    }
    if (missing || cyclic) && r.log.iter().any(|e| e.op == "compile") {
        p.push("a module was compiled although the import graph has a cycle or a missing import".into());
    }
    if r.ok {
        if missing || cyclic {
            p.push(format!("load succeeded although the reachable graph has {}", if cyclic { "a cycle" } else { "a missing import" }));
        }
        for i in 0..g.n {
            if !reach[i] {
                continue;
            }
            for (j, _) in &g.edges[i] {
                if *j < g.n {
                    if let (Some(ci), Some(cj)) = (pos("compile", &url(i)), pos("compile", &url(*j))) {
                        if cj > ci {
                            p.push(format!("{} compiled before its import {}", url(i), url(*j)));
                        }
                    }
                }
            }
        }
        let mut want: Vec<String> = (0..g.n).filter(|i| reach[*i]).map(url).collect();
        want.sort();
        if r.mods != want {
            p.push(format!("module set {:?} differs from the reachable set {:?}", r.mods, want));
        }
        if r.doc.is_none() {
            p.push("evaluation of the loaded modules failed".into());
        }
    } else if !missing && !cyclic {
        p.push(format!("well-formed import DAG was rejected: {} {}", r.err_kind, r.err_detail));
    } else {
        let ok_cycle = cyclic && r.err_kind == "CycleDetected";
        let ok_missing = missing && r.err_kind == "InvalidModule" && {
            // the reported import must be one of the missing targets
            let mut targets = Vec::new();
            for i in 0..g.n {
                if reach[i] {
                    for (j, _) in &g.edges[i] {
                        if *j >= g.n {
                            targets.push(url(*j));
                        }
                    }
                }
            }
            targets.contains(&r.err_detail)
        };
        if !(ok_cycle || ok_missing) {
            p.push(format!(
                "wrong error for a graph with cycle={cyclic} missing={missing}: {} {}",
                r.err_kind, r.err_detail
            ));
        }
    }
    p
}

fn run_case(g: &Graph, family: &str, rng: &mut Rng, st: &mut Stats) -> Vec<Violation> {
    let src = g.sources();
    let r = run_graph(&src);
    st.add("events_checked", r.log.len() as u64);
    st.inc(&format!("shape:{}", g.shape()));
    st.inc(if r.ok { "result:ok" } else { "result:err" });
    let mut out = Vec::new();
    for prob in check_log(g, &r) {
        let class: String = prob.split_whitespace().take(4).collect::<Vec<_>>().join(" ");
        out.push(Violation::new(
            "the loader's call sequence or result contradicts the import graph",
            json!({"signature": format!("C10 {class}"), "problem": prob, "graph": g.to_json(), "log": r.log.iter().map(|e| format!("{} {}", e.op, e.loc)).collect::<Vec<_>>()}),
        ));
    }
    // the error of a failed load, if it carries a position, points into the text of the module it names
    if let Some((loc, a, b)) = &r.err_span {
        let text = src.files.iter().find(|(n, _)| Sources::locator(n).url().as_str() == loc).map(|(_, t)| t.as_str());
        let ok = match text {
            Some(t) => a <= b && *b <= t.len() && t.is_char_boundary(*a) && t.is_char_boundary(*b),
            None => false,
        };
        st.inc("located_load_errors_checked");
        // "if an import cannot be found it reports that import": the line(s) the span of an InvalidModule error
        // touches hold the `use` statement of a missing target of that module
        if let (true, "InvalidModule", Some(t)) = (ok, r.err_kind.as_str(), text) {
            if let Some(i) = (0..g.n).find(|i| Sources::locator(&g.file(*i)).url().as_str() == loc) {
                let lo = t[..*a].rfind('\n').map(|x| x + 1).unwrap_or(0);
                let hi = t[*b..].find('\n').map(|x| b + x).unwrap_or(t.len());
                let lines = &t[lo..hi];
                let names_missing = g.edges[i].iter().any(|(j, v)| *j >= g.n && lines.contains(&format!("\"{}\"", g.spelled(i, *j, *v))));
                st.inc("missing_import_positions_checked");
                if !names_missing && g.has_missing() && !g.has_cycle() {
                    out.push(Violation::new(
                        "the error for an import that cannot be found is not located at that import",
                        json!({"signature": "C10 missing-import-reported-at-another-statement", "span": format!("{loc}#{a}..{b}"), "lines": lines, "graph": g.to_json()}),
                    ));
                }
            }
        }
        if !ok {
            out.push(Violation::new(
                "a load error carries a span outside the text of the module it names",
                json!({"signature": format!("C10 error-span-outside-module:{}", r.err_kind), "span": format!("{loc}#{a}..{b}"), "graph": g.to_json()}),
            ));
        }
    }
    // one in sixteen: the same files on a real file system through oal-cli (names with blanks and non-ASCII
    // characters are percent-encoded in locators and must be decoded again to reach the files)
    // (absolute `file:///ws/...` spellings only exist in the in-memory workspace)
    let absolute = g.edges.iter().any(|es| es.iter().any(|(_, v)| *v >= 3));
    if family != "exhaustive" && !absolute && hash64(&format!("{:?}{}", g.edges, g.layout)) % 8 == 0 && r.panic.is_none() {
        let dir = crate::drive::cli::TempDir::new("c10cli");
        crate::drive::cli::write_sources(&dir.path, &src);
        let c = crate::drive::cli::run_cli(&dir.path, &src.files[0].0, "out.yaml", None);
        st.inc("cli_loads_compared");
        let lib_ok = r.ok && r.doc.is_some();
        if !c.timed_out && c.success() != lib_ok {
            out.push(Violation::new(
                "oal-cli on the real file system and the library on the same files disagree about the load",
                json!({"signature": format!("C10 cli-disagrees:cli-{}:library-{}", if c.success() { "ok" } else { "failed" }, if lib_ok { "ok" } else { "failed" }),
                       "stderr": crate::util::clip(&c.stderr, 400), "graph": g.to_json(), "layout": g.layout}),
            ));
        }
    }
    // Invariance under permutation of use lines and re-spelling.
    let mut g2 = g.clone();
    for es in g2.edges.iter_mut() {
        rng.shuffle(es);
        for e in es.iter_mut() {
            e.1 = rng.below(4) as u8;
        }
    }
    let r2 = run_graph(&g2.sources());
    st.inc("variants_compared");
    let same_class = r.ok == r2.ok && (r.ok || r.err_kind == r2.err_kind || (g.has_cycle() && g.has_missing()));
    let same_doc = match (&r.doc, &r2.doc) {
        (Some(a), Some(b)) => first_diff(&canon(a), &canon(b)).is_none(),
        (None, None) => true,
        _ => false,
    };
    if !same_class || !same_doc || r.mods != r2.mods {
        out.push(Violation::new(
            "the result depends on the order or spelling of use statements",
            json!({"signature": "C10 order-or-spelling-dependence", "graph": g.to_json(), "variant": g2.to_json(),
                   "first": format!("{} {}", r.ok, r.err_kind), "second": format!("{} {}", r2.ok, r2.err_kind)}),
        ));
    }
    if g.reachable().iter().filter(|b| **b).count() >= 2 {
        st.nontrivial(hash64(&format!("{:?}", g.edges)));
        if family == "random" {
            st.sample(|| json!({"graph": g.to_json(), "shape": g.shape(), "events": r.log.iter().map(|e| format!("{} {}", e.op, e.loc.rsplit('/').next().unwrap_or(""))).collect::<Vec<_>>()}));
        }
    }
    out.truncate(3);
    out
}

impl Workload for Loads {
    fn len(&self) -> u64 {
        self.n_exh() + self.random
    }
    fn case_json(&self, seed: u64, idx: u64) -> Value {
        let (g, fam) = self.graph(seed, idx);
        json!({"graph": g.to_json(), "family": fam, "sources": g.sources().to_json()})
    }
    fn run(&self, seed: u64, idx: u64, st: &mut Stats) -> Vec<Violation> {
        let (g, fam) = self.graph(seed, idx);
        let mut rng = Rng::for_case(seed, "c10v", idx);
        run_case(&g, fam, &mut rng, st)
    }
    fn run_json(&self, case: &Value, st: &mut Stats) -> Vec<Violation> {
        let g = Graph::from_json(&case["graph"]);
        let mut rng = Rng::new(7);
        run_case(&g, "replay", &mut rng, st)
    }
    fn chunk(&self) -> u64 {
        200
    }
}

/// Deep import graphs (tens of thousands of modules on one path): a chain, a chain whose last module is also imported
/// by the first (the deep end is found before its importers), and a ring. Loaded on a thread with the stack of an
/// ordinary spawned thread (2 MiB): the loader may not need stack in proportion to the depth of the graph.
pub struct Deep {
    pub n: usize,
}

impl Deep {
    fn sources(&self, shape: u64) -> Sources {
        let n = self.n;
        let mut files = Vec::with_capacity(n);
        for i in 0..n {
            let mut t = String::new();
            if i + 1 < n {
                t.push_str(&format!("use \"m{}.oal\" as q;\n", i + 1));
            } else if shape == 2 {
                t.push_str("use \"m0.oal\" as q;\n");
            }
            if i == 0 && shape == 1 {
                t.push_str(&format!("use \"m{}.oal\" as leaf;\n", n - 1));
            }
            t.push_str("let v = num;\n");
            if i == 0 {
                t.push_str("res / on get -> <v>;\n");
            }
            files.push((format!("m{i}.oal"), t));
        }
        Sources { files }
    }
}

impl Workload for Deep {
    fn len(&self) -> u64 {
        3
    }
    fn case_json(&self, _seed: u64, idx: u64) -> Value {
        let shape = ["chain", "chain-with-shared-leaf", "ring"][idx as usize % 3];
        json!({"deep": {"modules": self.n, "shape": shape}})
    }
    fn run(&self, _seed: u64, idx: u64, st: &mut Stats) -> Vec<Violation> {
        let shape = idx % 3;
        let src = self.sources(shape);
        let n = self.n;
        // a stack overflow kills the worker process: the pool attributes the abort to this case
        let h = std::thread::Builder::new().stack_size(2 * 1024 * 1024).spawn(move || {
            let r = guard(|| {
                // a loader with a hashed index of the texts (the shared in-memory loader looks texts up by scanning)
                struct Indexed {
                    texts: std::collections::HashMap<String, String>,
                    loads: usize,
                    compiles: usize,
                }
                impl oal_compiler::module::Loader<pipeline::LErr> for Indexed {
                    fn is_valid(&mut self, loc: &oal_model::locator::Locator) -> bool {
                        self.texts.contains_key(loc.url().as_str())
                    }
                    fn load(&mut self, loc: &oal_model::locator::Locator) -> Result<String, pipeline::LErr> {
                        self.loads += 1;
                        self.texts.get(loc.url().as_str()).cloned().ok_or_else(|| pipeline::LErr::Missing(loc.clone()))
                    }
                    fn parse(&mut self, loc: oal_model::locator::Locator, input: String) -> Result<oal_compiler::tree::Tree, pipeline::LErr> {
                        let (tree, errs) = oal_syntax::parse::<_, oal_compiler::tree::Core>(loc.clone(), input);
                        match tree {
                            Some(t) if errs.is_empty() => Ok(t),
                            _ => Err(pipeline::LErr::Syntax(loc, errs)),
                        }
                    }
                    fn compile(&mut self, mods: &oal_compiler::module::ModuleSet, loc: &oal_model::locator::Locator) -> Result<(), pipeline::LErr> {
                        self.compiles += 1;
                        oal_compiler::compile::compile(mods, loc).map_err(pipeline::LErr::Compiler)
                    }
                }
                let main = Sources::locator(&src.files[0].0);
                let mut loader = Indexed {
                    texts: src.files.iter().map(|(n, t)| (Sources::locator(n).url().to_string(), t.clone())).collect(),
                    loads: 0,
                    compiles: 0,
                };
                let res = oal_compiler::module::load(&mut loader, &main);
                let (loads, compiles) = (loader.loads, loader.compiles);
                (res.as_ref().err().map(|e| lerr_info(e).kind), loads, compiles)
            });
            r.map_err(|p| p.signature())
        });
        let r = match h.map(|h| h.join()) {
            Ok(Ok(r)) => r,
            _ => Err("the loading thread died".to_owned()),
        };
        st.inc("deep_graphs_loaded");
        st.add("modules_in_deep_graphs", n as u64);
        st.nontrivial(hash64(&(n, shape)));
        let name = ["chain", "chain-with-shared-leaf", "ring"][shape as usize];
        let problem = match r {
            Err(sig) => Some(format!("panic {sig}")),
            Ok((None, loads, compiles)) if shape < 2 => (loads != n || compiles != n).then(|| format!("{loads} loads and {compiles} compilations of {n} modules")),
            Ok((None, ..)) => Some("a ring of imports was accepted".to_owned()),
            Ok((Some(k), ..)) if shape == 2 => (k != "CycleDetected").then(|| format!("a ring of imports reported as {k}")),
            Ok((Some(k), ..)) => Some(format!("rejected: {k}")),
        };
        match problem {
            None => vec![],
            Some(p) => vec![Violation::new(
                "a deep import graph is not loaded as the property says",
                json!({"signature": format!("C10 deep {name}: {}", p.split(':').next().unwrap_or("")), "problem": p, "modules": n}),
            )],
        }
    }
    fn run_json(&self, case: &Value, st: &mut Stats) -> Vec<Violation> {
        let shape = match case["deep"]["shape"].as_str() {
            Some("chain-with-shared-leaf") => 1,
            Some("ring") => 2,
            _ => 0,
        };
        Deep { n: case["deep"]["modules"].as_u64().unwrap_or(1000) as usize }.run(1, shape, st)
    }
    fn chunk(&self) -> u64 {
        1
    }
    fn case_timeout_s(&self) -> u64 {
        300
    }
}

pub fn run(ctx: &Ctx) -> i32 {
    let mut acc = Acc::new(ctx);
    let wl = Loads::new(ctx.quick());
    acc.pool(&wl, "c10", true);
    let deep = Deep { n: if ctx.quick() { 60_000 } else { 150_000 } };
    acc.pool(&deep, "c10deep", true);
    // language-server sessions (edit histories of C15's workload): every error the library locates must be
    // published for the document of its module with exactly the range of its span in the client's text
    let hs = super::c15::Histories {
        n: if ctx.quick() { 400 } else { 8000 },
        max_steps: if ctx.quick() { 25 } else { 60 },
        located_only: Some("C10"),
    };
    acc.pool(&hs, "c15loc-c10", true);
    // Canary: the offline checker must flag a log with a double load and a reversed compile order.
    let g = Graph {
        n: 2,
        edges: vec![vec![(1, 0)], vec![]],
        layout: 0,
        broken: None,
    };
    let u = |i: usize| Sources::locator(&g.file(i)).url().to_string();
    let bad = RunResult {
        log: vec![
            Event { op: "load", loc: u(0) },
            Event { op: "parse", loc: u(0) },
            Event { op: "load", loc: u(1) },
            Event { op: "load", loc: u(1) },
            Event { op: "parse", loc: u(1) },
            Event { op: "compile", loc: u(0) },
            Event { op: "compile", loc: u(1) },
        ],
        ok: true,
        err_kind: String::new(),
        err_detail: String::new(),
        err_span: None,
        mods: vec![u(0), u(1)],
        doc: Some(json!({})),
        panic: None,
    };
    let probs = check_log(&g, &bad);
    let canary = probs.iter().any(|p| p.contains("called 2 times")) && probs.iter().any(|p| p.contains("compiled before its import"));
    acc.observed.insert("canary_log_checker_flags_double_load_and_wrong_order".into(), json!(canary));
    if !canary {
        acc.inconclusive.push("log checker canary did not fire".into());
    }
    let exh = wl.max_exhaustive;
    acc.finish(
        "exploration",
        &format!("all import digraphs on <= {exh} modules including self loops (exhaustive), random graphs on 2..8 modules with duplicate use lines, four spellings of the same file and missing targets; module bodies use their imports (values and functions) so compile order is observable; each load recorded on an in-memory Loader delegating to the real parse/compile and checked offline; each graph also re-run with permuted, re-spelled use lines; plus recorded language-server sessions over C15's histories (no fresh server): the error the library pipeline locates in the current texts must be among the diagnostics published for the document of its module, with exactly the range of its span in the client's text; non-trivial = at least two reachable modules; distinct by edge list"),
        if ctx.quick() { 300 } else { 3000 },
        false,
        &["events carry a logical sequence number (log position), no clocks"],
        json!({"exhaustive_up_to_modules": exh}),
    )
}
