//! C16: editor positions and byte offsets convert exactly in both directions.
//! Exhaustive enumeration of texts over {a, é, €, 😉, LF, CRLF} against an independent reference conversion.

use super::{Acc, Ctx};
use crate::pool::{Violation, Workload};
use crate::util::{hash64, Stats};
use lsp_types::Position;
use oal_client::verif as hook;
use oal_model::locator::Locator;
use oal_model::span::{CharSpan, Span};
use serde_json::{json, Value};

const UNITS: [&str; 6] = ["a", "é", "€", "😉", "\n", "\r\n"];

pub struct Positions {
    max_len: u32,
}

impl Positions {
    pub fn new(quick: bool) -> Self {
        Positions {
            max_len: if quick { 6 } else { 8 },
        }
    }
    fn text(&self, mut idx: u64) -> String {
        let mut len = 0u32;
        let mut block = 1u64;
        while idx >= block {
            idx -= block;
            len += 1;
            block *= UNITS.len() as u64;
        }
        let mut s = String::new();
        for _ in 0..len {
            s.push_str(UNITS[(idx % UNITS.len() as u64) as usize]);
            idx /= UNITS.len() as u64;
        }
        s
    }
}

/// Reference model of a text as the client sees it: UTF-16 code units and a line table.
struct Model {
    units: Vec<u16>,
    /// start index (in units) of every line
    line_starts: Vec<usize>,
    /// byte offset of every unit-boundary (char boundary) paired with its unit index
    boundaries: Vec<(usize, usize)>,
}

impl Model {
    fn new(t: &str) -> Model {
        let units: Vec<u16> = t.encode_utf16().collect();
        let mut line_starts = vec![0];
        for (i, u) in units.iter().enumerate() {
            if *u == b'\n' as u16 {
                line_starts.push(i + 1);
            }
        }
        let mut boundaries = Vec::new();
        let mut ui = 0;
        for (bi, c) in t.char_indices() {
            boundaries.push((bi, ui));
            ui += c.len_utf16();
        }
        boundaries.push((t.len(), ui));
        Model {
            units,
            line_starts,
            boundaries,
        }
    }
    /// Reference: byte offset -> (line, character).
    fn to_position(&self, o: usize) -> (u32, u32) {
        let ui = self.boundaries.iter().find(|(b, _)| *b == o).map(|(_, u)| *u).unwrap();
        let line = self.line_starts.iter().rposition(|s| *s <= ui).unwrap();
        (line as u32, (ui - self.line_starts[line]) as u32)
    }
    /// End of the line's content in units (before its terminator).
    fn line_end(&self, line: usize) -> usize {
        let next = self.line_starts.get(line + 1).copied();
        match next {
            None => self.units.len(),
            Some(n) => {
                let mut e = n - 1; // the LF
                if e > self.line_starts[line] && self.units[e - 1] == b'\r' as u16 {
                    e -= 1;
                }
                e
            }
        }
    }
    /// Reference: (line, character) -> byte offset with protocol clamping. None if strictly inside a surrogate pair.
    fn to_offset(&self, line: u32, character: u32) -> Option<usize> {
        let line = line as usize;
        if line >= self.line_starts.len() {
            return Some(self.boundaries.last().unwrap().0);
        }
        let start = self.line_starts[line];
        let end = self.line_end(line);
        let ui = (start + character as usize).min(end);
        self.boundaries.iter().find(|(_, u)| *u == ui).map(|(b, _)| *b)
    }
    fn extract(&self, s: (u32, u32), e: (u32, u32)) -> Option<String> {
        let si = self.line_starts.get(s.0 as usize)? + s.1 as usize;
        let ei = self.line_starts.get(e.0 as usize)? + e.1 as usize;
        if si > ei || ei > self.units.len() {
            return None;
        }
        String::from_utf16(&self.units[si..ei]).ok()
    }
}

fn check_text(t: &str, st: &mut Stats) -> Vec<Violation> {
    let mut out = Vec::new();
    let m = Model::new(t);
    let loc = Locator::try_from("file:///t.oal").unwrap();
    let mut fail = |kind: &str, detail: Value| {
        if out.len() < 3 {
            out.push(Violation::new(
                kind,
                json!({"signature": format!("C16 {kind}"), "text": t, "detail": detail}),
            ));
        }
    };
    // Unit boundaries: char boundaries that do not split CRLF.
    let bytes = t.as_bytes();
    let unit_boundaries: Vec<usize> = m
        .boundaries
        .iter()
        .map(|(b, _)| *b)
        .filter(|b| !(*b > 0 && *b < t.len() && bytes[*b - 1] == b'\r' && bytes[*b] == b'\n'))
        .collect();
    // (a) offset -> position vs reference, and round trip.
    for &o in &unit_boundaries {
        let p = hook::utf8_to_position(t, o);
        let r = m.to_position(o);
        st.inc("offset_to_position");
        if (p.line, p.character) != r {
            fail("utf8_to_position", json!({"offset": o, "got": [p.line, p.character], "want": [r.0, r.1]}));
        }
        let back = hook::position_to_utf8(t, p);
        st.inc("round_trip");
        if back != o {
            fail("round_trip", json!({"offset": o, "position": [p.line, p.character], "back": back}));
        }
    }
    // (b) position -> offset with clamping, over the box.
    let lines = m.line_starts.len() as u32;
    let maxc = m.units.len() as u32 + 2;
    for line in 0..=lines + 1 {
        for ch in 0..=maxc {
            let Some(want) = m.to_offset(line, ch) else {
                st.inc("position_inside_surrogate_pair_skipped");
                continue;
            };
            let got = hook::position_to_utf8(t, Position { line, character: ch });
            st.inc("position_to_offset");
            if got != want {
                fail("position_to_utf8", json!({"position": [line, ch], "got": got, "want": want}));
            }
        }
    }
    // (c) range sent for a span selects exactly the span's text in the client's document.
    for (i, &o1) in unit_boundaries.iter().enumerate() {
        for &o2 in &unit_boundaries[i..] {
            let r = hook::utf8_range_to_position(t, o1..o2);
            let got = m.extract((r.start.line, r.start.character), (r.end.line, r.end.character));
            st.inc("span_to_range");
            if got.as_deref() != Some(&t[o1..o2]) {
                fail("utf8_range_to_position", json!({"span": [o1, o2], "range": [[r.start.line, r.start.character],[r.end.line, r.end.character]], "selected": got, "want": &t[o1..o2]}));
            }
        }
    }
    // (d) utf8 -> scalar value index (used for CLI/playground reports).
    for (k, (b, _)) in m.boundaries.iter().enumerate() {
        let cs = CharSpan::from(t, Span::new(loc.clone(), *b..t.len()));
        st.inc("char_index");
        if cs.start != k || cs.end != t.chars().count() {
            fail("utf8_to_char_index", json!({"offset": b, "got": [cs.start, cs.end], "want": [k, t.chars().count()]}));
        }
    }
    let multibyte = t.chars().any(|c| c.len_utf8() > 1);
    let newline = t.contains('\n');
    if multibyte && newline {
        st.nontrivial(hash64(t));
        st.sample(|| json!({"text": t, "boundaries": unit_boundaries}));
    }
    if t.contains('😉') {
        st.inc("texts_with_astral");
    }
    if t.contains("\r\n") {
        st.inc("texts_with_crlf");
    }
    out
}

impl Workload for Positions {
    fn len(&self) -> u64 {
        let mut n = 0;
        let mut b = 1u64;
        for _ in 0..=self.max_len {
            n += b;
            b *= UNITS.len() as u64;
        }
        n
    }
    fn case_json(&self, _seed: u64, idx: u64) -> Value {
        json!({"text": self.text(idx)})
    }
    fn run(&self, _seed: u64, idx: u64, st: &mut Stats) -> Vec<Violation> {
        check_text(&self.text(idx), st)
    }
    fn run_json(&self, case: &Value, st: &mut Stats) -> Vec<Violation> {
        check_text(case["text"].as_str().unwrap_or(""), st)
    }
    fn chunk(&self) -> u64 {
        4000
    }
}

/// Language-server sessions on workspaces full of multi-byte comments and CRLF between tokens: every range the
/// server sends for a span (definition and reference locations, the range offered by prepareRename) must select
/// exactly that span's text in the client's document.
pub struct LspRanges {
    pub n: u64,
}

impl LspRanges {
    fn case(&self, seed: u64, idx: u64, st: &mut Stats) -> Option<super::common::WtCase> {
        use super::common::*;
        let mut c = gen_wt_case(seed, "c16nav", idx, &super::c17::cfg(), st)?;
        with_trivia(&mut c, seed, "c16nav", idx);
        if idx % 4 == 2 {
            with_overflowing_literal(&mut c);
        }
        Some(c)
    }
    fn judge(&self, c: &super::common::WtCase, idx: u64, st: &mut Stats) -> Vec<Violation> {
        // navigation answers against the generator's span table (C17's sweep, every position of every module)
        let mut v = super::c17::run_case(c, 1, idx as usize, st);
        for x in v.iter_mut() {
            if let Some(sig) = x.detail.get("signature").and_then(Value::as_str).map(str::to_owned) {
                x.detail["signature"] = json!(sig.replacen("C17 ", "C16 lsp-range: ", 1));
            }
        }
        if v.is_empty() {
            v = prepare_ranges(c, idx, st);
        }
        v
    }
}

/// The range answered by textDocument/prepareRename, wherever the server offers a rename, selects exactly one
/// identifier token of the document (the name or the qualifier of an occurrence of the generator's table).
fn prepare_ranges(c: &super::common::WtCase, idx: u64, st: &mut Stats) -> Vec<Violation> {
    use crate::drive::cli::TempDir;
    use crate::drive::lsp::{file_uri, ClientDoc, Lsp};
    let mut out = Vec::new();
    let dir = TempDir::new("c16nav");
    super::c17::write_workspace(&dir.path, c);
    let Ok(mut lsp) = Lsp::start(&dir.path, None) else {
        return vec![Violation::new("the language server did not start", json!({"signature": "C16 lsp-range: server-start"}))];
    };
    let mut rng = crate::util::Rng::for_case(idx, "c16nav-pos", idx);
    for pm in &c.printed {
        let doc = ClientDoc::new(&pm.text);
        let uri = file_uri(&dir.path.join(&pm.file));
        let unit = |b: usize| doc.offset_of(doc.position_of_byte(&pm.text, b));
        // identifier tokens of the module, in UTF-16 units of the client's document
        let mut tokens: Vec<(usize, usize)> = Vec::new();
        let mut probes: Vec<usize> = Vec::new();
        for o in &pm.occs {
            tokens.push((unit(o.range.start), unit(o.range.end)));
            probes.push(o.range.start);
            probes.push(o.range.start + o.range.len() / 2);
            if let Some(q) = &o.qual {
                tokens.push((unit(q.start), unit(q.end)));
                probes.push(q.start);
            }
        }
        rng.shuffle(&mut probes);
        probes.truncate(40);
        for b in probes {
            if !pm.text.is_char_boundary(b) {
                continue;
            }
            let pos = doc.position_of_byte(&pm.text, b);
            let r = match lsp.position_request("textDocument/prepareRename", &uri, pos[0], pos[1]) {
                Ok(r) => r,
                Err(e) => {
                    out.push(Violation::new(
                        "the language server died or stopped answering on prepareRename",
                        json!({"signature": "C16 lsp-range: server-failure on prepareRename", "error": crate::util::clip(&format!("{e:?}"), 300)}),
                    ));
                    lsp.shutdown();
                    return out;
                }
            };
            st.inc("prepare_rename_requests");
            let (Some(sl), Some(sc), Some(el), Some(ec)) = (
                r["start"]["line"].as_u64(),
                r["start"]["character"].as_u64(),
                r["end"]["line"].as_u64(),
                r["end"]["character"].as_u64(),
            ) else {
                continue;
            };
            st.inc("prepare_rename_ranges_checked");
            // the range as the client reads it (positions past a line end are clamped by `offset_of`, as the protocol says)
            let got = (doc.offset_of([sl as u32, sc as u32]), doc.offset_of([el as u32, ec as u32]));
            let exact = doc.position_of(got.0) == [sl as u32, sc as u32] && doc.position_of(got.1) == [el as u32, ec as u32];
            if (!tokens.contains(&got) || !exact) && out.len() < 3 {
                let held = if got.0 <= got.1 && got.1 <= doc.units.len() { String::from_utf16_lossy(&doc.units[got.0..got.1]) } else { String::new() };
                out.push(Violation::new(
                    "the range offered by prepareRename does not select an identifier of the client's document",
                    json!({"signature": "C16 lsp-range: prepareRename range is not an identifier token", "module": pm.file, "position": pos,
                           "range": r, "selects": held}),
                ));
            }
        }
    }
    lsp.shutdown();
    out
}

impl Workload for LspRanges {
    fn len(&self) -> u64 {
        self.n
    }
    fn case_json(&self, seed: u64, idx: u64) -> Value {
        let mut st = Stats::new();
        match self.case(seed, idx, &mut st) {
            Some(c) => json!({"seed": seed, "index": idx, "sources": c.sources.to_json()}),
            None => json!({"skipped": true}),
        }
    }
    fn run(&self, seed: u64, idx: u64, st: &mut Stats) -> Vec<Violation> {
        let Some(c) = self.case(seed, idx, st) else { return vec![] };
        let v = self.judge(&c, idx, st);
        st.nontrivial(hash64(&c.sources.files));
        v
    }
    fn run_json(&self, case: &Value, st: &mut Stats) -> Vec<Violation> {
        if case.get("skipped").is_some() {
            return vec![];
        }
        // the span table comes from the generator: regenerate from (seed, index)
        let seed = case["seed"].as_u64().unwrap_or(1);
        let idx = case["index"].as_u64().unwrap_or(0);
        let Some(c) = self.case(seed, idx, st) else { return vec![] };
        self.judge(&c, idx, st)
    }
    fn chunk(&self) -> u64 {
        2
    }
    fn case_timeout_s(&self) -> u64 {
        300
    }
}

pub fn run(ctx: &Ctx) -> i32 {
    let mut acc = Acc::new(ctx);
    let wl = Positions::new(ctx.quick());
    acc.pool(&wl, "c16", false);
    // language-server sessions (edit histories of C15's workload): every error the library locates must be
    // published for the document of its module with exactly the range of its span in the client's text
    let hs = super::c15::Histories {
        n: if ctx.quick() { 400 } else { 8000 },
        max_steps: if ctx.quick() { 25 } else { 60 },
        located_only: Some("C16"),
    };
    acc.pool(&hs, "c15loc-c16", true);
    // ... and every location answered to definition / references requests, and every range offered by
    // prepareRename, on workspaces with multi-byte comments and CRLF between the tokens
    let nav = LspRanges { n: if ctx.quick() { 100 } else { 3000 } };
    acc.pool(&nav, "c16nav", true);
    // Canary: the reference must disagree with a deliberately wrong conversion (UTF-8 length for UTF-16 length).
    let m = Model::new("é\na");
    let canary_ok = m.to_position(3) == (1, 0) && m.to_offset(0, 5) == Some(2) && m.to_offset(7, 0) == Some(4);
    if !canary_ok {
        acc.inconclusive.push("reference conversion canary failed".into());
    }
    acc.observed.insert("canary_reference_model".into(), json!(canary_ok));
    let max_len = wl.max_len;
    acc.finish(
        "exploration",
        &format!("all texts of <= {max_len} units over {{a, é, €, 😉, LF, CRLF}}, every unit-boundary offset, every position with line <= lines+1 and character <= units+2 (positions strictly inside a surrogate pair skipped), every span; plus recorded language-server sessions over C15's histories (no fresh server): the error the library pipeline locates in the current texts must be among the diagnostics published for the document of its module, with exactly the range of its span in the client's text; plus navigation sessions of the real oal-lsp on generated multi-module workspaces with multi-byte comments and CRLF between tokens (some after a literal the lexer drops): the locations answered to definition and references requests at every position are the ranges of the generator's span table in an independent UTF-16 line model, and every range offered by prepareRename selects exactly one identifier token; non-trivial = text has a multi-byte character and a line terminator; distinct by text hash (capped sample per chunk)"),
        1000,
        true,
        &["reference conversion built on encode_utf16 and an explicit line table", "lone CR outside the property's alphabet"],
        json!({"bound_units": max_len}),
    )
}
