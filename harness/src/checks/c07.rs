//! C07: type inference terminates and its verdict is independent of order and names.
//! (a) order/name invariance of the verdict class; (b) agreement with solvability on generated programs and
//! ill-kinded-by-construction variants; (c) the unifier against a reference unifier (through the hook).

use super::common::*;
use super::{Acc, Ctx};
use crate::drive::pipeline::{self, lerr_info, Sources};
use crate::gen::ast::*;
use crate::gen::mutate::mutate_ast;
use crate::gen::print::print_program;
use crate::gen::wt::generate;
use crate::pool::{Violation, Workload};
use crate::reference::unify as ru;
use crate::reference::unify::T;
use crate::util::{guard, hash64, Rng, Stats};
use oal_compiler::verif::{reduce, FuncTag, InferenceSet, Seq, Tag, TagId};
use serde_json::{json, Value};

// ------------------------------------------------------------------------------------------- (c)

pub struct Unify {
    pub pair_terms: usize,
    pub random: u64,
}

impl Unify {
    pub fn new(quick: bool) -> Self {
        Unify {
            pair_terms: if quick { 24 } else { 42 },
            random: if quick { 100_000 } else { 20_000_000 },
        }
    }
    fn n_single(&self) -> u64 {
        264 * 264
    }
    fn n_pairs(&self) -> u64 {
        let k = self.pair_terms as u64;
        k * k * k * k
    }
    fn system(&self, seed: u64, idx: u64) -> (Vec<(T, T)>, &'static str) {
        let mut i = idx;
        if i < self.n_single() {
            let ts = ru::terms_depth1();
            return (vec![(ts[(i / 264) as usize].clone(), ts[(i % 264) as usize].clone())], "single");
        }
        i -= self.n_single();
        if i < self.n_pairs() {
            let ts = ru::subset(self.pair_terms);
            let k = self.pair_terms as u64;
            let a = (i % k) as usize;
            let b = ((i / k) % k) as usize;
            let c = ((i / (k * k)) % k) as usize;
            let d = (i / (k * k * k)) as usize;
            return (vec![(ts[a].clone(), ts[b].clone()), (ts[c].clone(), ts[d].clone())], "pair");
        }
        i -= self.n_pairs();
        let mut rng = Rng::for_case(seed, "c07sys", i);
        let n = rng.range(1, 6);
        let eqs = (0..n).map(|_| (rand_term(&mut rng, 3), rand_term(&mut rng, 3))).collect();
        (eqs, "random")
    }
}

fn rand_term(rng: &mut Rng, depth: usize) -> T {
    let k = if depth == 0 { rng.below(6) } else { rng.below(10) };
    match k {
        0..=2 => T::Var(k),
        3 => T::Text,
        4 => T::Object,
        5 => T::Uri,
        6 => T::Prop(Box::new(rand_term(rng, depth - 1))),
        7 | 8 => T::Fun(vec![rand_term(rng, depth - 1)], Box::new(rand_term(rng, depth - 1))),
        _ => T::Fun(
            vec![rand_term(rng, depth - 1), rand_term(rng, depth - 1)],
            Box::new(rand_term(rng, depth - 1)),
        ),
    }
}

fn to_tag(t: &T, vars: &[TagId]) -> Tag {
    match t {
        T::Var(i) => Tag::Var(vars[*i].clone()),
        T::Text => Tag::Text,
        T::Object => Tag::Object,
        T::Uri => Tag::Uri,
        T::Prop(p) => Tag::Property(Box::new(to_tag(p, vars))),
        T::Fun(a, r) => Tag::Func(FuncTag {
            bindings: a.iter().map(|x| to_tag(x, vars)).collect(),
            range: Box::new(to_tag(r, vars)),
        }),
    }
}

fn from_tag(t: &Tag, vars: &[TagId]) -> Option<T> {
    Some(match t {
        Tag::Var(id) => T::Var(vars.iter().position(|v| v == id)?),
        Tag::Text => T::Text,
        Tag::Object => T::Object,
        Tag::Uri => T::Uri,
        Tag::Property(p) => T::Prop(Box::new(from_tag(p, vars)?)),
        Tag::Func(f) => T::Fun(
            f.bindings.iter().map(|b| from_tag(b, vars)).collect::<Option<Vec<_>>>()?,
            Box::new(from_tag(&f.range, vars)?),
        ),
        _ => return None,
    })
}

fn term_json(t: &T) -> Value {
    json!(format!("{t:?}"))
}

/// Runs the real unifier on a system. Ok(Some(images of v0..v2)) / Ok(None) rejected.
fn real_unify(eqs: &[(T, T)]) -> (bool, Option<Vec<T>>, bool) {
    let loc = oal_model::locator::Locator::try_from("file:///u.oal").unwrap();
    let mut seq = Seq::new(loc);
    let vars: Vec<TagId> = (0..3).map(|_| seq.next()).collect();
    let mut set = InferenceSet::new();
    for (a, b) in eqs {
        set.push(to_tag(a, &vars), to_tag(b, &vars), None);
    }
    match set.unify() {
        Err(_) => (false, None, true),
        Ok(uf) => {
            let images: Option<Vec<T>> = (0..3).map(|i| from_tag(&reduce(&uf, &Tag::Var(vars[i].clone())), &vars)).collect();
            // does the substitution solve the system?
            let solves = eqs
                .iter()
                .all(|(a, b)| reduce(&uf, &to_tag(a, &vars)) == reduce(&uf, &to_tag(b, &vars)));
            (true, images, solves)
        }
    }
}

fn check_system(eqs: &[(T, T)], rng: &mut Rng, st: &mut Stats) -> Vec<Violation> {
    let mut out = Vec::new();
    let want = ru::unify(3, eqs);
    let (ok, images, solves) = real_unify(eqs);
    st.inc(if want.is_some() { "reference:solvable" } else { "reference:unsolvable" });
    let sysj = || Value::Array(eqs.iter().map(|(a, b)| json!([term_json(a), term_json(b)])).collect());
    if ok != want.is_some() {
        out.push(Violation::new(
            "the unifier's verdict differs from solvability",
            json!({"signature": format!("C07 unifier-verdict: implementation {} reference {}", if ok {"accepts"} else {"rejects"}, if want.is_some() {"solvable"} else {"unsolvable"}), "system": sysj()}),
        ));
        return out;
    }
    if let (Some(s), Some(images)) = (&want, &images) {
        if !solves {
            out.push(Violation::new(
                "the substitution returned by the unifier does not solve the system",
                json!({"signature": "C07 unifier-not-a-solution", "system": sysj()}),
            ));
        }
        let ref_images: Vec<T> = (0..3).map(|i| ru::apply(s, &T::Var(i))).collect();
        if !ru::equal_up_to_renaming(images, &ref_images) {
            out.push(Violation::new(
                "the substitution returned by the unifier is not the most general one",
                json!({"signature": "C07 unifier-not-most-general", "system": sysj(),
                       "implementation": format!("{images:?}"), "reference": format!("{ref_images:?}")}),
            ));
        }
        st.inc("mgu_compared");
    } else if ok && images.is_none() {
        out.push(Violation::new(
            "the unifier produced a tag outside the input alphabet",
            json!({"signature": "C07 unifier-foreign-tag", "system": sysj()}),
        ));
    }
    // verdict under permutation of the equations and swap of sides
    let mut variant: Vec<(T, T)> = eqs.to_vec();
    rng.shuffle(&mut variant);
    for e in variant.iter_mut() {
        if rng.chance(1, 2) {
            std::mem::swap(&mut e.0, &mut e.1);
        }
    }
    let (ok2, _, _) = real_unify(&variant);
    st.inc("order_variants");
    if ok2 != ok {
        out.push(Violation::new(
            "the unifier's verdict depends on the order of equations or of their sides",
            json!({"signature": "C07 unifier-order-dependence", "system": sysj()}),
        ));
    }
    out
}

impl Workload for Unify {
    fn len(&self) -> u64 {
        self.n_single() + self.n_pairs() + self.random
    }
    fn case_json(&self, seed: u64, idx: u64) -> Value {
        let (eqs, fam) = self.system(seed, idx);
        json!({"family": fam, "index": idx, "seed": seed, "system": eqs.iter().map(|(a, b)| json!([term_json(a), term_json(b)])).collect::<Vec<_>>()})
    }
    fn run(&self, seed: u64, idx: u64, st: &mut Stats) -> Vec<Violation> {
        let (eqs, fam) = self.system(seed, idx);
        st.inc(&format!("family:{fam}"));
        let mut rng = Rng::for_case(seed, "c07perm", idx);
        let v = check_system(&eqs, &mut rng, st);
        if eqs.iter().any(|(a, b)| ru::depth(a) + ru::depth(b) > 0) {
            st.nontrivial(hash64(&format!("{eqs:?}")));
            if fam == "random" {
                st.sample(|| json!({"system": format!("{eqs:?}"), "solvable": ru::unify(3, &eqs).is_some()}));
            }
        }
        v
    }
    fn run_json(&self, case: &Value, st: &mut Stats) -> Vec<Violation> {
        // systems are pure functions of (seed, index): regenerate
        let idx = case["index"].as_u64().unwrap_or(0);
        let seed = case["seed"].as_u64().unwrap_or(1);
        self.run(seed, idx, st)
    }
    fn chunk(&self) -> u64 {
        5000
    }
}

// ------------------------------------------------------------------------------------------- (a)

pub struct Invariance {
    pub n: u64,
}

fn verdict(src: &Sources) -> Result<String, String> {
    match pipeline::load(src) {
        Ok(l) => Ok(match (&l.mods, &l.err) {
            (Some(_), _) => "accepted".to_owned(),
            (None, Some(e)) => format!("rejected:{}", lerr_info(e).kind),
            _ => "rejected:?".to_owned(),
        }),
        Err(p) => Err(p.signature()),
    }
}

/// Injective respelling of every identifier (binders, uses and qualifiers alike).
fn respell(p: &Program, rng: &mut Rng) -> Program {
    let mut map: Vec<(String, String)> = Vec::new();
    let salt = rng.below(1000);
    let mut sp = |s: &str| -> String {
        if s == "concat" {
            return s.to_owned();
        }
        if let Some((_, n)) = map.iter().find(|(o, _)| o == s) {
            return n.clone();
        }
        let n = if let Some(r) = s.strip_prefix('@') {
            format!("@R{}x{}{}", map.len(), salt, r.len())
        } else if salt % 3 == 0 && map.len() < crate::gen::rewrite::LOOKALIKES.len() {
            // names that look like keywords in another letter case are ordinary identifiers
            crate::gen::rewrite::LOOKALIKES[map.len()].to_owned()
        } else {
            format!("N{}_{}", map.len(), salt)
        };
        map.push((s.to_owned(), n.clone()));
        n
    };
    fn go(e: &mut E, sp: &mut dyn FnMut(&str) -> String) {
        match e {
            E::Var { qual, name, .. } => {
                if let Some(q) = qual {
                    *q = sp(q);
                }
                *name = sp(name);
            }
            E::Rec { binder, .. } => *binder = sp(binder),
            _ => {}
        }
        for c in e.children_mut() {
            go(c, sp);
        }
    }
    let mut q = p.clone();
    for d in q.decls.iter_mut() {
        d.name = sp(&d.name);
        for prm in d.params.iter_mut() {
            *prm = sp(prm);
        }
        go(&mut d.rhs, &mut sp);
    }
    for m in q.modules.iter_mut() {
        for s in m.stmts.iter_mut() {
            match s {
                Stmt::Use { qual: Some(ql), .. } => *ql = sp(ql),
                Stmt::Res { e } => go(e, &mut sp),
                _ => {}
            }
        }
    }
    q
}

fn permute(p: &Program, rng: &mut Rng) -> Program {
    let mut q = p.clone();
    for m in q.modules.iter_mut() {
        // `use` statements keep their relative order (which of two faulty imports is compiled first follows it);
        // they are re-inserted at random positions among the shuffled rest
        let uses: Vec<Stmt> = m.stmts.iter().filter(|s| matches!(s, Stmt::Use { .. })).cloned().collect();
        let mut rest: Vec<Stmt> = m.stmts.iter().filter(|s| !matches!(s, Stmt::Use { .. })).cloned().collect();
        rng.shuffle(&mut rest);
        let mut at = 0;
        for u in uses {
            at = rng.range(at, rest.len());
            rest.insert(at, u);
            at += 1;
        }
        m.stmts = rest;
    }
    q
}

fn inv_case(seed: u64, idx: u64) -> Program {
    let mut rng = Rng::for_case(seed, "c07inv", idx);
    let cfg = super::explore::explore_cfg();
    let mut p = generate(&mut rng, &cfg);
    if idx % 5 == 4 {
        // name-level negatives (a declaration clashing with an unqualified import placed before or after it, an
        // unbound use, a duplicate): the verdict must not depend on where the declarations stand
        if let Some((q, _, _)) = super::c08::negative(&p, &mut rng) {
            return q;
        }
    }
    if idx % 3 != 0 {
        for _ in 0..rng.range(1, 2) {
            mutate_ast(&mut p, &mut rng);
        }
    }
    p
}

fn check_invariance(p: &Program, rng: &mut Rng, st: &mut Stats) -> Vec<Violation> {
    let base_src = sources_of(&print_program(p));
    let base = match verdict(&base_src) {
        Ok(v) => v,
        Err(_) => {
            st.inc("compile_panicked_left_to_C04");
            return vec![];
        }
    };
    st.inc(&format!("verdict:{base}"));
    let mut out = Vec::new();
    for k in 0..4 {
        let (q, what) = if k % 2 == 0 { (permute(p, rng), "permutation") } else { (respell(p, rng), "renaming") };
        let src = sources_of(&print_program(&q));
        match verdict(&src) {
            Ok(v) => {
                st.inc(&format!("variants:{what}"));
                if v != base {
                    out.push(Violation::new(
                        "the checker's verdict changes under a permutation of declarations or a consistent renaming",
                        json!({"signature": format!("C07 verdict-depends-on-{what}"), "original": base, "variant": v,
                               "sources": base_src.to_json(), "variant_sources": src.to_json()}),
                    ));
                    break;
                }
            }
            Err(sig) => {
                out.push(Violation::new(
                    "the checker crashed on a permuted/renamed variant of a program it handles",
                    json!({"signature": format!("C07 variant-crash: {sig}"), "sources": src.to_json()}),
                ));
                break;
            }
        }
    }
    if base != "accepted" || p.decls.len() > 3 {
        st.nontrivial(hash64(&base_src.files));
        st.sample(|| json!({"verdict": base, "sources": base_src.to_json()}));
    }
    out
}

impl Workload for Invariance {
    fn len(&self) -> u64 {
        self.n
    }
    fn case_json(&self, seed: u64, idx: u64) -> Value {
        json!({"seed": seed, "index": idx, "sources": sources_of(&print_program(&inv_case(seed, idx))).to_json()})
    }
    fn run(&self, seed: u64, idx: u64, st: &mut Stats) -> Vec<Violation> {
        let p = inv_case(seed, idx);
        let mut rng = Rng::for_case(seed, "c07invv", idx);
        check_invariance(&p, &mut rng, st)
    }
    fn run_json(&self, case: &Value, st: &mut Stats) -> Vec<Violation> {
        self.run(case["seed"].as_u64().unwrap_or(1), case["index"].as_u64().unwrap_or(0), st)
    }
    fn chunk(&self) -> u64 {
        100
    }
}

// ------------------------------------------------------------------------------------------- (b)

pub struct Agreement {
    pub n: u64,
}

/// Declarations that have no kinding solution, to be appended to an accepted program.
pub const ILL_KINDED: [(&str, &str); 21] = [
    ("reference-alias-cycle", "let @zz21 = @zz22; let @zz22 = @zz21;"),
    ("reference-self-alias", "let @zz23 = @zz23;"),
    ("rec-alias", "let zz18 = rec zzr zzr;"),
    ("rec-alias-parenthesised", "let zz19 = rec zzr (zzr);"),
    ("rec-alias-nested", "let zz20 = rec zzr (rec zzs zzr);"),
    ("unequal-sum", "let zz1 = {} | num;"),
    ("text-as-schema", "let zz2 = { 'a \"text\" };"),
    ("arity", "let zzf x = x; let zz3 = zzf {} {};"),
    ("rec-over-uri", "let zz4 = rec r /a?{ 'q r };"),
    ("rec-over-content", "let zz5 = rec r <r>;"),
    ("alias-cycle", "let zz6 = zz7; let zz7 = zz6;"),
    ("function-cycle", "let zzg x = zzh x; let zzh y = zzg y;"),
    ("join-of-primitive", "let zz8 = num & {};"),
    ("text-status", "let zz9 = <status=\"x\">;"),
    ("relation-without-transfer", "let zz10 = /a on num;"),
    ("mark-on-schema", "let zz11 = num ?;"),
    ("reference-to-content", "let @zz12 = <>;"),
    ("uri-variable-object", "let zz13 = /{ 'id {} };"),
    ("content-in-array", "let zz14 = [ <> ];"),
    ("self-property", "let zz15 = 'p zz15;"),
    ("apply-non-function", "let zz16 = {}; let zz17 = zz16 num;"),
];

fn check_agreement(seed: u64, idx: u64, st: &mut Stats) -> Vec<Violation> {
    let Some(c) = gen_wt_case(seed, "c07wt", idx, &crate::gen::wt::Cfg::default(), st) else {
        return vec![];
    };
    let mut out = Vec::new();
    match verdict(&c.sources) {
        Ok(v) if v == "accepted" => st.inc("solvable_accepted"),
        Ok(v) => out.push(Violation::new(
            "a program whose kind constraints have a solution (well-kinded by construction) is rejected",
            json!({"signature": format!("C07 solvable-rejected:{v}"), "sources": c.sources.to_json()}),
        )),
        Err(_) => st.inc("compile_panicked_left_to_C04"),
    }
    let (name, decl) = ILL_KINDED[(idx % ILL_KINDED.len() as u64) as usize];
    let mut src = c.sources.clone();
    let k = (idx / ILL_KINDED.len() as u64) as usize % src.files.len();
    // append after the last statement, or insert after the use lines
    if idx % 2 == 0 {
        src.files[k].1.push_str(&format!("\n{decl}\n"));
    } else {
        let t = &src.files[k].1;
        let pos = c.printed[k]
            .stmts
            .iter()
            .zip(c.prog.modules[k].stmts.iter())
            .find(|(_, s)| !matches!(s, Stmt::Use { .. }))
            .map(|(r, _)| r.start)
            .unwrap_or(t.len());
        let mut nt = t[..pos].to_owned();
        nt.push_str(decl);
        nt.push('\n');
        nt.push_str(&t[pos..]);
        src.files[k].1 = nt;
    }
    match verdict(&src) {
        Ok(v) if v == "rejected:InvalidType" => st.inc(&format!("unsolvable_rejected:{name}")),
        Ok(v) => out.push(Violation::new(
            "a program with a declaration that has no kinding solution is not rejected as a type error",
            json!({"signature": format!("C07 unsolvable-not-rejected:{name}:{v}"), "sources": src.to_json()}),
        )),
        Err(sig) => out.push(Violation::new(
            "the checker crashed on an ill-kinded program",
            json!({"signature": format!("C07 ill-kinded-crash:{name}: {sig}"), "sources": src.to_json()}),
        )),
    }
    st.nontrivial(hash64(&src.files));
    st.sample(|| json!({"ill_kinded": name, "sources": src.to_json()}));
    out
}

impl Workload for Agreement {
    fn len(&self) -> u64 {
        self.n
    }
    fn case_json(&self, seed: u64, idx: u64) -> Value {
        json!({"seed": seed, "index": idx})
    }
    fn run(&self, seed: u64, idx: u64, st: &mut Stats) -> Vec<Violation> {
        check_agreement(seed, idx, st)
    }
    fn run_json(&self, case: &Value, st: &mut Stats) -> Vec<Violation> {
        check_agreement(case["seed"].as_u64().unwrap_or(1), case["index"].as_u64().unwrap_or(0), st)
    }
    fn chunk(&self) -> u64 {
        100
    }
}

// ------------------------------------------------------------------------------------------- (b')

/// The kind table: every typed position of the language (`H` marks the hole) against one expression of every
/// kind. The expected verdict is the language's kinding rule for the position (which kinds it admits), written
/// down here independently of the order in which the checker happens to visit things.
pub struct KindTable {
    pub variants: u64,
}

#[derive(Clone, Copy, PartialEq, Debug)]
enum K {
    Text,
    Number,
    Status,
    Prim,
    Obj,
    Arr,
    Prop,
    PropPrim,
    Content,
    Xfer,
    Uri,
    Rel,
    Any,
}

const FILLERS: [(&str, K); 14] = [
    ("\"t\"", K::Text),
    ("201", K::Number),
    ("4XX", K::Status),
    ("num", K::Prim),
    ("{}", K::Obj),
    ("[num]", K::Arr),
    ("('p {})", K::Prop),
    ("('p num)", K::PropPrim),
    ("<>", K::Content),
    ("(get -> {})", K::Xfer),
    ("/zza", K::Uri),
    ("(/zza on get -> {})", K::Rel),
    ("({} ~ num)", K::Any),
    ("(<> :: <status=404>)", K::Content),
];

fn schema(k: K) -> bool {
    matches!(k, K::Prim | K::Obj | K::Arr | K::Uri | K::Rel | K::Any)
}
fn content_like(k: K) -> bool {
    schema(k) || k == K::Content
}

/// (name, text with `H`, admitted kinds)
fn contexts() -> Vec<(&'static str, &'static str, fn(K) -> bool)> {
    fn obj(k: K) -> bool {
        k == K::Obj
    }
    fn text(k: K) -> bool {
        k == K::Text
    }
    fn status(k: K) -> bool {
        matches!(k, K::Number | K::Status)
    }
    fn prop(k: K) -> bool {
        matches!(k, K::Prop | K::PropPrim)
    }
    fn prop_prim(k: K) -> bool {
        k == K::PropPrim
    }
    fn uri(k: K) -> bool {
        k == K::Uri
    }
    fn xfer(k: K) -> bool {
        k == K::Xfer
    }
    fn rel_like(k: K) -> bool {
        matches!(k, K::Rel | K::Uri)
    }
    fn prim(k: K) -> bool {
        k == K::Prim
    }
    fn rec_body(k: K) -> bool {
        schema(k) && k != K::Uri
    }
    vec![
        ("headers-alone", "let zzk = <headers=H, {}>;", obj),
        ("headers-after-status", "let zzk = <status=200, headers=H, {}>;", obj),
        ("headers-before-status", "let zzk = <headers=H, status=200, {}>;", obj),
        ("headers-after-media", "let zzk = <media=\"text/plain\", headers=H>;", obj),
        ("headers-last-of-three", "let zzk = <status=200, media=\"text/plain\", headers=H, {}>;", obj),
        ("media-alone", "let zzk = <media=H, {}>;", text),
        ("media-after-status", "let zzk = <status=200, media=H, {}>;", text),
        ("media-before-status", "let zzk = <media=H, status=200>;", text),
        ("media-after-headers", "let zzk = <headers={}, media=H, {}>;", text),
        ("status-alone", "let zzk = <status=H, {}>;", status),
        ("status-after-media", "let zzk = <media=\"text/plain\", status=H>;", status),
        ("body", "let zzk = <H>;", schema),
        ("body-after-status", "let zzk = <status=200, H>;", schema),
        ("array-item", "let zzk = [H];", schema),
        ("property-value", "let zzk = { 'a H };", schema),
        ("object-member", "let zzk = { 'a num, H };", prop),
        ("join-left", "let zzk = H & {};", obj),
        ("join-right", "let zzk = {} & { 'a num } & H;", obj),
        ("sum-with-primitive", "let zzk = H | num;", prim),
        ("sum-with-object", "let zzk = {} | H;", obj),
        ("sum-of-three-last", "let zzk = num | str | H;", prim),
        ("sum-of-three-middle", "let zzk = num | H | str;", prim),
        ("sum-of-three-first", "let zzk = H | num | str;", prim),
        ("sum-of-four-third", "let zzk = {} | { 'a num } | H | {};", obj),
        ("sum-through-function", "let zzf zzx zzy zzz = zzx | zzy | zzz; let zzk = zzf num str H;", prim),
        // alternatives that agree with each other and are no schemas all the same (nothing but the rule of the
        // operator itself rejects them)
        ("sum-with-itself", "let zzk = H | H;", schema),
        ("sum-of-three-alike", "let zzk = H | H | H;", schema),
        ("sum-of-a-variable-with-itself", "let zzc = H; let zzk = zzc | zzc;", schema),
        ("sum-of-a-parameter-with-itself", "let zzf zzx = zzx | zzx; let zzk = zzf H;", schema),
        // functions of an imported module whose parameter kind is fixed by an equation of their body (`LIB` is replaced
        // by the import); positions that are only checked once kinds are resolved (array items, property values) leave the
        // parameter open, which is the open finding on cross-module instantiation, not this table's subject
        ("imported-mark-function", "LIB let zzk = zzl.zzopt H;", prop),
        ("imported-join-function", "LIB let zzk = zzl.zzjoin H;", obj),
        ("imported-media-function", "LIB let zzk = zzl.zzmedia H;", text),
        ("any-operand", "let zzk = H ~ num;", schema),
        ("ranges-operand", "let zzk = H :: <status=404>;", content_like),
        ("transfer-domain", "let zzk = put : H -> {};", content_like),
        ("transfer-range", "let zzk = get -> H;", content_like),
        ("relation-uri", "let zzk = H on get -> {};", uri),
        ("relation-transfer", "let zzk = /zzb on H;", xfer),
        ("relation-second-transfer", "let zzk = /zzb on get -> {}, H;", xfer),
        ("resource", "res H;", rel_like),
        ("optional-mark", "let zzk = H ?;", prop),
        ("required-mark", "let zzk = { H ! };", prop),
        ("uri-variable", "let zzk = /zzb/{ H };", prop_prim),
        ("rec-body", "let zzk = rec zzr H;", rec_body),
        ("reference-declaration", "let @zzk = H;", schema),
        ("argument-of-join-function", "let zzf zzx = zzx & {}; let zzk = zzf H;", obj),
        ("argument-of-media-function", "let zzf zzx = <status=200, media=zzx, {}>; let zzk = zzf H;", text),
        ("argument-of-headers-function", "let zzf zzx = <status=200, headers=zzx, {}>; let zzk = zzf H;", obj),
        ("argument-of-array-function", "let zzf zzx = [zzx]; let zzk = zzf H;", schema),
        ("second-argument", "let zzf zzy zzx = { 'a zzy } & zzx; let zzk = zzf num H;", obj),
        ("function-used-before-declared", "let zzk = zzf H; let zzf zzx = zzx & {};", obj),
    ]
}

impl Workload for KindTable {
    fn len(&self) -> u64 {
        contexts().len() as u64 * FILLERS.len() as u64 * self.variants
    }
    fn case_json(&self, seed: u64, idx: u64) -> Value {
        json!({"seed": seed, "index": idx})
    }
    fn run(&self, seed: u64, idx: u64, st: &mut Stats) -> Vec<Violation> {
        let cs = contexts();
        let pair = idx / self.variants;
        let (cname, ctext, admits) = cs[(pair / FILLERS.len() as u64) as usize];
        let (ftext, fk) = FILLERS[(pair % FILLERS.len() as u64) as usize];
        let decl = ctext.replace('H', ftext).replace("LIB", "use \"zzlib.oal\" as zzl;");
        let needs_lib = ctext.contains("LIB");
        let variant = idx % self.variants;
        // variant 0: a minimal program; others: a generated well-kinded program, declaration first or last,
        // in any of its modules
        let mut src = if variant == 0 {
            Sources::single("res /zzroot on get -> <{}>;\n")
        } else {
            match gen_wt_case(seed, "c07kinds", idx, &crate::gen::wt::Cfg::default(), st) {
                Some(c) => c.sources,
                None => return vec![],
            }
        };
        let k = (variant as usize / 2) % src.files.len();
        if needs_lib {
            // the library sits next to the module that imports it
            let dir = match src.files[k].0.rfind('/') {
                Some(i) => src.files[k].0[..=i].to_owned(),
                None => String::new(),
            };
            src.files.push((
                format!("{dir}zzlib.oal"),
                "let zzopt zzp = zzp ?;\nlet zzjoin zzp = zzp & {};\nlet zzmedia zzp = <status=200, media=zzp, {}>;\nlet zzarr zzp = [zzp];\n".to_owned(),
            ));
        }
        if variant % 2 == 0 || src.files[k].1.contains("use ") {
            src.files[k].1.push_str(&format!("\n{decl}\n"));
        } else {
            src.files[k].1 = format!("{decl}\n{}", src.files[k].1);
        }
        let want = if admits(fk) { "accepted" } else { "rejected:InvalidType" };
        st.inc(&format!("kind_table:{want}"));
        st.nontrivial(hash64(&(cname, ftext, variant)));
        match verdict(&src) {
            Ok(v) if v == want => vec![],
            Ok(v) => vec![Violation::new(
                "the checker's verdict on a typed position differs from the language's kinding rule for it",
                json!({"signature": format!("C07 kind-table:{cname}:{fk:?}:expected {want}:got {v}"), "declaration": decl, "sources": src.to_json()}),
            )],
            Err(sig) => vec![Violation::new(
                "the checker crashed on a kind-table entry",
                json!({"signature": format!("C07 kind-table-crash:{cname}:{fk:?}: {sig}"), "declaration": decl, "sources": src.to_json()}),
            )],
        }
    }
    fn run_json(&self, case: &Value, st: &mut Stats) -> Vec<Violation> {
        self.run(case["seed"].as_u64().unwrap_or(1), case["index"].as_u64().unwrap_or(0), st)
    }
    fn chunk(&self) -> u64 {
        100
    }
}

pub fn run(ctx: &Ctx) -> i32 {
    let mut acc = Acc::new(ctx);
    let u = Unify::new(ctx.quick());
    acc.pool(&u, "c07unify", true);
    let inv = Invariance {
        n: if ctx.quick() { 10_000 } else { 500_000 },
    };
    acc.pool(&inv, "c07inv", true);
    let ag = Agreement {
        n: if ctx.quick() { 9600 } else { 480_000 },
    };
    acc.pool(&ag, "c07agree", true);
    let kt = KindTable {
        variants: if ctx.quick() { 3 } else { 40 },
    };
    acc.pool(&kt, "c07kinds", true);
    // Canary: the reference unifier rejects v0 = property[v0] and solves v0 = func[v1]->text.
    let canary = ru::unify(3, &[(T::Var(0), T::Prop(Box::new(T::Var(0))))]).is_none()
        && ru::unify(3, &[(T::Var(0), T::Fun(vec![T::Var(1)], Box::new(T::Text)))]).is_some()
        && !ru::equal_up_to_renaming(&[T::Var(0), T::Var(0)], &[T::Var(0), T::Var(1)]);
    acc.observed.insert("canary_reference_unifier".into(), json!(canary));
    if !canary {
        acc.inconclusive.push("reference unifier canary failed".into());
    }
    let _ = guard(|| ());
    acc.finish(
        "exploration",
        "(c) tag-equation systems over 3 variables and {text, object, uri, property, unary and binary function}: every single equation between the 264 terms of depth <=1 and every pair of equations over a fixed 24-term (thorough 42-term) subset (exhaustive), random systems of <=6 equations of depth <=3, each fed to InferenceSet::unify through the hook and compared with a reference unifier (verdict, solution, most-generality up to renaming, order/side invariance), divergence shows as a child abort; (a) generated programs and kind-breaking mutants under statement permutations and injective respellings: verdict class must not change; (b) well-kinded generated programs must be accepted, the same programs with one of 16 unsolvable declarations added must be rejected as type errors; non-trivial = system with a compound term / program with >3 declarations or a rejection; distinct by content hash",
        2000,
        false,
        &["the first-reported error kind is compared, not messages or spans", "use statements keep their order under permutation (import order is C10's subject)"],
        json!({"exhaustive_part": "single equations over 264 terms; pairs over the fixed subset"}),
    )
}
