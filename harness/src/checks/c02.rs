//! C02: the emitted document means what the program says (translation validation against the
//! reference semantics of DESIGN.md Appendix A).

use super::common::*;
use super::{Acc, Ctx};
use crate::drive::pipeline::{run as run_pipeline, Outcome, Sources};
use crate::gen::wt::Cfg;
use crate::oracle::canon::{canon, diff_class, first_diff};
use crate::pool::{Violation, Workload};
use crate::reference::eval::Expected;
use crate::util::{hash64, Stats};
use serde_json::{json, Value};

pub struct Wt {
    pub n: u64,
    pub cfg: Cfg,
}

pub fn wt_cfg() -> Cfg {
    Cfg {
        shadow_pct: 12,
        max_modules: 4,
        ..Cfg::default()
    }
}

/// Compares an implementation outcome with the expectation. Returns violations.
pub fn compare(src: &Sources, exp_doc: Option<&Value>, invalid_status: bool, st: &mut Stats) -> Vec<Violation> {
    let out = run_pipeline(src, None);
    st.inc(&format!("outcome:{}", out.class()));
    match (&out, exp_doc) {
        (Outcome::Doc { json: got, .. }, Some(exp)) => {
            let a = canon(got);
            let b = canon(exp);
            if let Some((ptr, l, r)) = first_diff(&a, &b) {
                vec![Violation::new(
                    "document differs from the reference semantics",
                    json!({
                        "signature": format!("doc-mismatch:{}", diff_class(&ptr)),
                        "pointer": ptr,
                        "implementation": clip_doc(&l),
                        "reference": clip_doc(&r),
                    }),
                )]
            } else {
                st.inc("documents_equal");
                vec![]
            }
        }
        (Outcome::EvalError(e), None) if invalid_status && e.kind == "InvalidLiteral" && e.span.is_some() => {
            st.inc("expected_invalid_status_error");
            vec![]
        }
        (Outcome::EvalError(e), _) => vec![Violation::new(
            "accepted program evaluated to an error the reference does not expect",
            json!({"signature": format!("unexpected-eval-error:{}", e.kind), "error": e.message}),
        )],
        (Outcome::Doc { .. }, None) => vec![Violation::new(
            "a document was emitted where the reference expects the located error 'invalid literal'",
            json!({"signature": "missing-invalid-status-error"}),
        )],
        (Outcome::Rejected(e), _) => {
            // Acceptance of G-wt programs is C07(b)'s subject; counted here.
            st.inc("wt_rejected_by_implementation");
            st.sample(|| json!({"rejected": e.message, "sources": src.to_json()}));
            vec![]
        }
        (Outcome::Panic { .. }, _) | (Outcome::EmitError(_), _) => {
            // Crashes are C01's subject, YAML round trip C03's; counted here.
            st.inc("crash_or_emit_error_left_to_C01_C03");
            vec![]
        }
    }
}

impl Workload for Wt {
    fn len(&self) -> u64 {
        self.n
    }
    fn case_json(&self, seed: u64, idx: u64) -> Value {
        let mut st = Stats::new();
        match gen_wt_case(seed, "c02", idx, &self.cfg, &mut st) {
            Some(c) => match &c.expected {
                Expected::Doc { doc, .. } => json!({"sources": c.sources.to_json(), "expected": doc}),
                Expected::InvalidStatus(n) => json!({"sources": c.sources.to_json(), "invalid_status": n}),
            },
            None => json!({"skipped": true}),
        }
    }
    fn run(&self, seed: u64, idx: u64, st: &mut Stats) -> Vec<Violation> {
        let Some(c) = gen_wt_case(seed, "c02", idx, &self.cfg, st) else {
            return vec![];
        };
        let feats = features(&c.prog);
        for f in &feats {
            st.inc(&format!("feature:{f}"));
        }
        let (doc, inv) = match &c.expected {
            Expected::Doc { doc, .. } => (Some(doc), false),
            Expected::InvalidStatus(_) => (None, true),
        };
        let v = compare(&c.sources, doc, inv, st);
        if nontrivial_wt(&feats) {
            st.nontrivial(hash64(&c.sources.files));
            st.sample(|| json!({"sources": c.sources.to_json()}));
        }
        v
    }
    fn run_json(&self, case: &Value, st: &mut Stats) -> Vec<Violation> {
        if case.get("skipped").is_some() {
            return vec![];
        }
        let src = Sources::from_json(&case["sources"]);
        compare(&src, case.get("expected"), case.get("invalid_status").is_some(), st)
    }
    fn chunk(&self) -> u64 {
        100
    }
}

pub fn run(ctx: &Ctx) -> i32 {
    let mut acc = Acc::new(ctx);
    let wl = Wt {
        n: if ctx.quick() { 30_000 } else { 2_000_000 },
        cfg: wt_cfg(),
    };
    acc.pool(&wl, "c02", false);
    // Canary: a corrupted observation (a dropped parameter) must be flagged by the comparison.
    let a = json!({"paths": {"/a": {"parameters": [{"in": "path", "name": "x"}]}}, "components": {}});
    let b = json!({"paths": {"/a": {}}, "components": {}});
    let canary = first_diff(&canon(&a), &canon(&b)).is_some();
    acc.observed.insert("canary_dropped_parameter_flagged".into(), json!(canary));
    if !canary {
        acc.inconclusive.push("comparison canary did not fire".into());
    }
    let total = acc.evaluations.max(1);
    let rejected = acc.stats.get("wt_rejected_by_implementation");
    if rejected * 50 > total {
        acc.inconclusive.push(format!(
            "{rejected} of {total} generated programs were rejected by the implementation (acceptance is C07's subject)"
        ));
    }
    let undefined = acc.stats.get("gen_reference_undefined");
    if undefined * 50 > total {
        acc.inconclusive.push(format!("reference semantics undefined on {undefined} generated programs"));
    }
    let programs = acc.stats.get("documents_equal") + acc.found.len() as u64;
    let disagreements = acc.stats.get("outcome:doc") - acc.stats.get("documents_equal");
    acc.witnesses();
    acc.finish(
        "translation_validation",
        "G-wt programs (type-directed generator over the whole surface language, <=3 modules, depth <=4, rejection-sampled away from shapes the language leaves unspecified and from open findings), each compiled by the real pipeline and compared with the reference document up to bisimilarity of implicit components; non-trivial = accepted and has >=3 of {application, rec/recursive declaration, import, content meta, URI variable, annotation}; distinct by source hash",
        if ctx.quick() { 500 } else { 5000 },
        false,
        &[
            "the reference semantics (DESIGN.md Appendix A) is my reading of README, examples, tests and code",
            "serde_yaml parses what it emitted (round trip is C03's subject)",
        ],
        json!({"programs": programs, "disagreements_checked": disagreements}),
    )
}
