//! Helpers shared by the program-level checks.

use crate::drive::pipeline::Sources;
use crate::gen::ast::*;
use crate::gen::print::{print_program, print_program_trivia, PrintedModule};
use crate::gen::wt::{generate, Cfg};
use crate::reference::eval::{expected, Expected, RefErr};
use crate::util::{Rng, Stats};
use serde_json::{json, Value};

pub struct WtCase {
    pub prog: Program,
    pub printed: Vec<PrintedModule>,
    pub sources: Sources,
    pub expected: Expected,
}

pub fn sources_of(printed: &[PrintedModule]) -> Sources {
    Sources {
        files: printed.iter().map(|m| (m.file.clone(), m.text.clone())).collect(),
    }
}

/// Flags that always exclude a program from reference-based checks (unspecified or open findings).
pub const EXCLUDED_FLAGS: [&str; 8] = [
    "dup-range-key",
    "same-status-different-headers-or-description",
    "dup-property-name",
    "dup-parameter-name",
    "dup-header-name",
    "dup-path-variable",
    "dup-method-in-relation",
    "dup-path",
];

/// Generates a G-wt program whose reference semantics is defined and unflagged (rejection sampling).
pub fn gen_wt_case(seed: u64, salt: &str, idx: u64, cfg: &Cfg, st: &mut Stats) -> Option<WtCase> {
    let mut rng = Rng::for_case(seed, salt, idx);
    // one case in five is call-heavy: many functions of several parameters of unlike kinds
    let heavy;
    let cfg = if idx % 5 == 4 {
        heavy = cfg.clone().call_heavy();
        &heavy
    } else {
        cfg
    };
    for _try in 0..40 {
        let mut prog = generate(&mut rng, cfg);
        let mut rec_shadows = (0, 0);
        if cfg.rec_shadow_every > 0 && idx % cfg.rec_shadow_every == 1 % cfg.rec_shadow_every {
            // rec binders named like something the same statement uses in front of them (own random stream: the other
            // cases stay what they were)
            rec_shadows = crate::gen::twin::add_rec_shadows(&mut prog, &mut Rng::for_case(seed, "rec-shadows", idx));
        }
        let mut header_twins = 0;
        if idx % 7 == 3 {
            // header names that differ by case only (own random stream)
            header_twins = crate::gen::twin::add_header_case_twins(&mut prog, &mut Rng::for_case(seed, "header-twins", idx));
        }
        match expected(&prog) {
            Ok(exp) => {
                if let Expected::Doc { flags, .. } = &exp {
                    let bad = flags.iter().any(|f| {
                        EXCLUDED_FLAGS.contains(&f.as_str())
                            || (f == "default-multi-media" && !cfg.allow_default_multi_media)
                    });
                    if bad {
                        for f in flags {
                            st.inc(&format!("gen_excluded:{f}"));
                        }
                        continue;
                    }
                }
                st.add("gen_header_objects_with_names_differing_by_case", header_twins as u64);
                st.add("gen_rec_binders_named_like_a_declaration_used_before", rec_shadows.0 as u64);
                st.add("gen_rec_binders_named_like_a_parameter_used_before", rec_shadows.1 as u64);
                let printed = print_program(&prog);
                let sources = sources_of(&printed);
                return Some(WtCase {
                    prog,
                    printed,
                    sources,
                    expected: exp,
                });
            }
            Err(RefErr::TooLarge) => {
                st.inc("gen_skipped:too-large");
            }
            Err(RefErr::Undefined(m)) => {
                st.inc("gen_reference_undefined");
                st.sample(|| json!({"reference_undefined": m}));
            }
            Err(RefErr::InvalidStatus(_)) => unreachable!(),
        }
    }
    st.inc("gen_gave_up");
    None
}

/// Re-prints a case with random blanks, newlines (LF and CRLF) and comments between tokens; the span table follows.
pub fn with_trivia(c: &mut WtCase, seed: u64, salt: &str, idx: u64) {
    let mut rng = Rng::for_case(seed, &format!("{salt}-trivia"), idx);
    c.printed = print_program_trivia(&c.prog, &mut rng);
    c.sources = sources_of(&c.printed);
}

/// Reprints the case with as few blanks as possible (`wrap@item`, `f(x)`).
pub fn with_tight(c: &mut WtCase) {
    c.printed = crate::gen::print::print_program_tight(&c.prog);
    c.sources = sources_of(&c.printed);
}

/// The literal put in front of every module by `with_overflowing_literal`.
pub const OVERFLOWING_LITERAL: &str = "99999999999999999999999\n";

/// Puts an integer literal that does not fit 64 bits on a line of its own in front of every module: a lexical error
/// the tokenizer reports and drops, after which the program is what it was; every table range moves by its length.
pub fn with_overflowing_literal(c: &mut WtCase) {
    let l = OVERFLOWING_LITERAL.len();
    let shift = |r: &mut std::ops::Range<usize>| *r = (r.start + l)..(r.end + l);
    for pm in c.printed.iter_mut() {
        pm.text = format!("{OVERFLOWING_LITERAL}{}", pm.text);
        for r in pm.stmts.iter_mut() {
            shift(r);
        }
        for o in pm.occs.iter_mut() {
            shift(&mut o.range);
            if let Some(q) = o.qual.as_mut() {
                shift(q);
            }
        }
        for (_, r) in pm.decl_ranges.iter_mut() {
            shift(r);
        }
    }
    c.sources = sources_of(&c.printed);
}

/// Feature census of a program (for coverage histograms and the non-triviality rule).
pub fn features(p: &Program) -> Vec<&'static str> {
    let mut f: Vec<&'static str> = Vec::new();
    let mut add = |s: &'static str| {
        if !f.contains(&s) {
            f.push(s)
        }
    };
    if p.modules.len() > 1 {
        add("import");
    }
    let rec = p.recursive_decls();
    if rec.iter().any(|b| *b) {
        add("recursive-declaration");
    }
    for d in &p.decls {
        if d.is_fun() {
            add("function");
        }
        if d.is_ref() {
            add("reference");
        }
        if !d.anns.is_empty() {
            add("annotation");
        }
    }
    let mut exprs: Vec<&E> = p.decls.iter().map(|d| &d.rhs).collect();
    for m in &p.modules {
        for s in &m.stmts {
            if let Stmt::Res { e } = s {
                exprs.push(e);
            }
        }
    }
    for e in exprs {
        e.visit(&mut |x| match x {
            E::App { .. } => add("application"),
            E::Rec { .. } => add("rec"),
            E::Ann { .. } => add("annotation"),
            E::Content { metas, .. } if !metas.is_empty() => add("content-meta"),
            E::UriT { segs, params } => {
                if segs.iter().any(|s| matches!(s, Seg::Var(_))) {
                    add("uri-variable");
                }
                if params.is_some() {
                    add("uri-params");
                }
            }
            E::Op { op, .. } => add(match op {
                OpK::Join => "op-join",
                OpK::Any => "op-any",
                OpK::Sum => "op-sum",
                OpK::Range => "op-range",
            }),
            E::Unary { .. } => add("postfix-mark"),
            E::Xfer { domain, params, .. } => {
                if domain.is_some() {
                    add("xfer-domain");
                }
                if params.is_some() {
                    add("xfer-params");
                }
            }
            E::Var { qual: Some(_), .. } => add("qualified-use"),
            E::Var {
                target: Target::Builtin(_),
                ..
            } => add("concat"),
            _ => {}
        });
    }
    f
}

pub fn nontrivial_wt(feats: &[&str]) -> bool {
    let keys = [
        "application",
        "rec",
        "recursive-declaration",
        "import",
        "content-meta",
        "uri-variable",
        "annotation",
    ];
    let mut n = 0;
    let mut rec_counted = false;
    for k in keys {
        if feats.contains(&k) {
            if k == "rec" || k == "recursive-declaration" {
                if rec_counted {
                    continue;
                }
                rec_counted = true;
            }
            n += 1;
        }
    }
    n >= 3
}

pub fn clip_doc(v: &Value) -> Value {
    let s = v.to_string();
    if s.len() > 600 {
        json!(format!("{}…", &s[..s.char_indices().take(600).last().map(|(i, _)| i).unwrap_or(0)]))
    } else {
        v.clone()
    }
}

/// Where the library pipeline locates the error of a rejected program: (file name, byte span, error kind).
/// None when the program is accepted and evaluates, or when the error carries no position (import cycle,
/// syntax errors without a tree).
pub fn error_location(src: &Sources) -> Option<(String, usize, usize, String)> {
    use crate::drive::pipeline::{self, Outcome, BASE};
    let e = match pipeline::run(src, None) {
        Outcome::Rejected(e) | Outcome::EvalError(e) => e,
        _ => return None,
    };
    let sp = e.span?;
    if sp.start == 0 && sp.end == 0 {
        return None;
    }
    let file = sp.loc.strip_prefix(BASE)?.to_owned();
    Some((file, sp.start, sp.end, e.kind))
}

/// The diagnostics a language server has published must contain one for the located error, in the document of
/// the module the error lives in, with exactly the range of the error's span in the client's text of that
/// document. Returns a description of the problem, if any.
pub fn check_error_published(
    diags: &std::collections::BTreeMap<String, Vec<serde_json::Value>>,
    uri_of: &dyn Fn(&str) -> String,
    text_of: &dyn Fn(&str) -> Option<String>,
    expect: &(String, usize, usize, String),
) -> Option<(String, serde_json::Value)> {
    let (file, start, end, kind) = expect;
    let text = text_of(file)?;
    if *end > text.len() || !text.is_char_boundary(*start) || !text.is_char_boundary(*end) {
        return None;
    }
    let doc = crate::drive::lsp::ClientDoc::new(&text);
    let (ps, pe) = (doc.position_of_byte(&text, *start), doc.position_of_byte(&text, *end));
    let want = json!({"start": {"line": ps[0], "character": ps[1]}, "end": {"line": pe[0], "character": pe[1]}});
    let uri = uri_of(file);
    let here: Vec<&serde_json::Value> = diags.get(&uri).map(|v| v.iter().collect()).unwrap_or_default();
    if here.iter().any(|d| d["range"] == want) {
        return None;
    }
    let elsewhere: Vec<String> = diags
        .iter()
        .filter(|(u, v)| **u != uri && !v.is_empty())
        .map(|(u, v)| format!("{} {}", u.rsplit('/').next().unwrap_or(""), v[0]["range"]))
        .collect();
    let class = if here.is_empty() && elsewhere.is_empty() {
        "no-diagnostic-for-a-located-error"
    } else if here.is_empty() {
        "diagnostic-published-for-another-document"
    } else {
        "diagnostic-range-is-not-the-error-span"
    };
    Some((
        format!("{class}:{kind}"),
        json!({"file": file, "span": [start, end], "expected_range": want,
               "published_for_the_document": here.iter().map(|d| d["range"].clone()).collect::<Vec<_>>(),
               "published_elsewhere": elsewhere, "selected_text": crate::util::clip(&text[*start..*end], 80)}),
    ))
}
