//! The exploration workload shared by C01, C03, C04 (compile-stage crashes) and C11 (error spans):
//! G-wt programs, kind-breaking AST mutants, token- and byte-level mutants, corpus programs and their mutants.

use super::common::*;
use crate::gen::ast::{Program, Ty, E};
use crate::drive::pipeline::Sources;
use crate::gen::mutate::*;
use crate::gen::print::{print_program, print_program_mutant};
use crate::gen::wt::{generate, Cfg};
use crate::util::{verif_root, Rng};
use std::sync::OnceLock;

pub struct ExploreCase {
    pub sources: Sources,
    pub origin: String,
    /// trigger shape of the open finding "cross-module instantiation of under-constrained functions"
    pub cross_module_app: bool,
    /// trigger shapes of open findings present in the program (see `shapes_of`); programs without an abstract
    /// syntax (token/byte mutants, corpus) conservatively carry all of them
    pub shapes: Vec<&'static str>,
}

pub const ALL_SHAPES: [&str; 2] = ["alias-on-cycle", "uri-kinded-declaration-on-cycle"];

/// Trigger shapes of the two open findings about the recursion placeholder:
/// * alias-on-cycle: a declaration that is a bare alias of another one (`let x = node;`) lies on a declaration cycle
///   (the placeholder is memoised as the alias' value);
/// * uri-kinded-declaration-on-cycle: a declaration of kind URI lies on a declaration cycle (re-entering it yields
///   the placeholder where a URI is required).
/// For mutants, whose binding targets may be stale (names re-bind when the text is parsed), the cycle structure of
/// the abstract syntax says nothing: a shape is assumed present whenever its ingredient exists at all (some
/// declaration that is a bare alias / that is URI-kinded), absent otherwise.
pub fn shapes_possible(p: &Program) -> Vec<&'static str> {
    let mut out = Vec::new();
    if p.decls.iter().any(|d| matches!(d.rhs.peel(), E::Var { .. })) {
        out.push("alias-on-cycle");
    }
    let uri_headed = |e: &E| match e.peel() {
        E::UriT { .. } => true,
        E::App { f, .. } => matches!(f.peel(), E::Var { target: crate::gen::ast::Target::Builtin(b), .. } if b == "concat"),
        _ => false,
    };
    if p.decls.iter().any(|d| d.ty == Ty::Uri || matches!(&d.ty, Ty::Fun(_, r) if **r == Ty::Uri) || uri_headed(&d.rhs)) {
        out.push("uri-kinded-declaration-on-cycle");
    }
    out
}

pub fn shapes_of(p: &Program) -> Vec<&'static str> {
    let n = p.decls.len();
    let adj: Vec<Vec<usize>> = p.decls.iter().map(|d| Program::mentions(&d.rhs)).collect();
    let mut on_cycle = vec![false; n];
    for i in 0..n {
        let mut seen = vec![false; n];
        let mut stack: Vec<usize> = adj[i].clone();
        while let Some(j) = stack.pop() {
            if j == i {
                on_cycle[i] = true;
                break;
            }
            if !seen[j] {
                seen[j] = true;
                stack.extend(adj[j].iter().copied());
            }
        }
    }
    let mut out = Vec::new();
    if (0..n).any(|d| on_cycle[d] && matches!(p.decls[d].rhs.peel(), E::Var { .. })) {
        out.push("alias-on-cycle");
    }
    // URI-kinded by the generator's kind or, after a kind-breaking mutation, by the look of the right-hand side
    let uri_headed = |e: &E| match e.peel() {
        E::UriT { .. } => true,
        E::App { f, .. } => matches!(f.peel(), E::Var { target: crate::gen::ast::Target::Builtin(b), .. } if b == "concat"),
        _ => false,
    };
    if (0..n).any(|d| {
        on_cycle[d] && (p.decls[d].ty == Ty::Uri || matches!(&p.decls[d].ty, Ty::Fun(_, r) if **r == Ty::Uri) || uri_headed(&p.decls[d].rhs))
    }) {
        out.push("uri-kinded-declaration-on-cycle");
    }
    out
}

static CORPUS: OnceLock<Vec<(String, Sources)>> = OnceLock::new();

pub fn corpus() -> &'static Vec<(String, Sources)> {
    CORPUS.get_or_init(|| {
        let dir = verif_root().join("corpus/programs");
        let mut names: Vec<_> = std::fs::read_dir(&dir)
            .map(|d| d.filter_map(|e| e.ok()).map(|e| e.path()).collect())
            .unwrap_or_default();
        names.sort();
        let module = std::fs::read_to_string(dir.join("ex_module.oal")).unwrap_or_default();
        let mut out = Vec::new();
        for p in names {
            if p.extension().and_then(|e| e.to_str()) != Some("oal") {
                continue;
            }
            let name = p.file_name().unwrap().to_string_lossy().to_string();
            let text = std::fs::read_to_string(&p).unwrap_or_default();
            let mut files = vec![("main.oal".to_owned(), text.clone())];
            if text.contains("\"module.oal\"") || text.contains("\"module\"") {
                files.push(("module.oal".to_owned(), module.clone()));
                files.push(("module".to_owned(), module.clone()));
            }
            out.push((name, Sources { files }));
        }
        out
    })
}

pub fn explore_cfg() -> Cfg {
    Cfg {
        invalid_status: true,
        shadow_pct: 8,
        ..Cfg::default()
    }
}

pub fn explore_case(seed: u64, salt: &str, idx: u64) -> ExploreCase {
    let mut rng = Rng::for_case(seed, salt, idx);
    // every other round of 20 cases uses the call-heavy shape
    let cfg = if (idx / 20) % 2 == 1 { explore_cfg().call_heavy() } else { explore_cfg() };
    let kind = idx % 20;
    match kind {
        0..=2 => {
            let p = generate(&mut rng, &cfg);
            ExploreCase {
                sources: sources_of(&print_program(&p)),
                origin: "wt".into(),
                cross_module_app: false,
                shapes: shapes_of(&p),
            }
        }
        3..=12 => {
            let mut p = generate(&mut rng, &cfg);
            let n = rng.range(1, 2);
            let mut what = Vec::new();
            for _ in 0..n {
                what.push(mutate_ast(&mut p, &mut rng));
            }
            ExploreCase {
                cross_module_app: has_cross_module_application(&p),
                shapes: shapes_possible(&p),
                sources: sources_of(&print_program_mutant(&p)),
                origin: format!("ast-mutant:{}", what.join("+")),
            }
        }
        13..=15 => {
            let p = generate(&mut rng, &cfg);
            let q = generate(&mut rng, &cfg);
            let mut src = sources_of(&print_program(&p));
            let other = print_program(&q);
            let k = rng.below(src.files.len());
            src.files[k].1 = mutate_tokens(&src.files[k].1, &other[0].text, &mut rng);
            ExploreCase {
                sources: src,
                origin: "token-mutant".into(),
                cross_module_app: p.modules.len() > 1,
                shapes: ALL_SHAPES.to_vec(),
            }
        }
        16 => {
            let p = generate(&mut rng, &cfg);
            let mut src = sources_of(&print_program(&p));
            let k = rng.below(src.files.len());
            src.files[k].1 = mutate_bytes(&src.files[k].1, &mut rng);
            ExploreCase {
                sources: src,
                origin: "byte-mutant".into(),
                cross_module_app: p.modules.len() > 1,
                shapes: ALL_SHAPES.to_vec(),
            }
        }
        17 => {
            let c = corpus();
            if c.is_empty() {
                return ExploreCase {
                    sources: Sources::single(""),
                    origin: "corpus-missing".into(),
                    cross_module_app: false,
                    shapes: ALL_SHAPES.to_vec(),
                };
            }
            let (name, src) = &c[(idx / 20) as usize % c.len()];
            ExploreCase {
                sources: src.clone(),
                origin: format!("corpus:{name}"),
                cross_module_app: src.files.len() > 1,
                shapes: ALL_SHAPES.to_vec(),
            }
        }
        _ => {
            let c = corpus();
            if c.is_empty() {
                return ExploreCase {
                    sources: Sources::single(""),
                    origin: "corpus-missing".into(),
                    cross_module_app: false,
                    shapes: ALL_SHAPES.to_vec(),
                };
            }
            let (_, a) = rng.pick(c).clone();
            let (_, b) = rng.pick(c).clone();
            let mut src = a;
            src.files[0].1 = if kind == 18 {
                mutate_tokens(&src.files[0].1, &b.files[0].1, &mut rng)
            } else {
                mutate_bytes(&src.files[0].1, &mut rng)
            };
            ExploreCase {
                cross_module_app: src.files.len() > 1,
                shapes: ALL_SHAPES.to_vec(),
                sources: src,
                origin: "corpus-mutant".into(),
            }
        }
    }
}
