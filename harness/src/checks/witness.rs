//! Witnesses of open known findings (KNOWN_FINDINGS.txt): each is replayed by the check of its property.
//! If the recorded observation recurs the check prints KNOWN-FINDING; if the witness passes, nothing is
//! printed; the signatures here are the exact failing observations.

use crate::drive::pipeline::{self, Outcome, Sources};
use crate::oracle::canon::{canon, first_diff};
use crate::oracle::validate::validate;
use crate::pool::{Violation, Workload};
use crate::util::Stats;
use serde_json::{json, Value};

pub struct Witnesses {
    pub check: String,
}

fn doc(src: &Sources) -> Option<Value> {
    match pipeline::run(src, None) {
        Outcome::Doc { json, .. } => Some(json),
        _ => None,
    }
}

fn two(main: &str, other: (&str, &str)) -> Sources {
    Sources {
        files: vec![("main.oal".into(), main.into()), (other.0.into(), other.1.into())],
    }
}

type W = (&'static str, &'static str, fn() -> Option<String>);

fn front_end_panic(text: &str) -> Option<String> {
    let r = crate::util::guard(|| oal_wasm::compile(text));
    crate::util::install_panic_hook();
    match r {
        Err(p) => Some(format!("C04 playground: panic {}", p.signature())),
        Ok(_) => None,
    }
}

/// (property, key, observation) — observation returns the signature if the finding still reproduces.
pub const WITNESSES: [W; 17] = [
    ("C01", "c01-cross-module-instantiation", || {
        let src = two("use \"a.oal\";\nres / on get -> f <>;\n", ("a.oal", "let f x = { 'p x };\n"));
        match pipeline::run(&src, None) {
            Outcome::Panic { stage, accepted: true, info } => Some(format!(
                "C01 panic in {stage}: {} [cross-module-application]",
                info.class()
            )),
            _ => None,
        }
    }),
    ("C01", "c01-recursion-placeholder-memoised", || {
        let src = Sources::single("let node = / on get -> x;\nlet x = node;\nres node;\nres x;\n");
        match pipeline::run(&src, None) {
            Outcome::Panic { stage, accepted: true, info } => Some(format!("C01 panic in {stage}: {} [alias-on-cycle]", info.signature())),
            _ => None,
        }
    }),
    ("C01", "c01-recursion-placeholder-as-uri", || {
        let src = Sources::single("let @u = /a?{ 'b v };\nlet v = [ { 'l (@u on get -> <>) } ];\nres @u on get -> <>;\n");
        match pipeline::run(&src, None) {
            Outcome::Panic { stage, accepted: true, info } => Some(format!("C01 panic in {stage}: {} [uri-kinded-declaration-on-cycle]", info.signature())),
            _ => None,
        }
    }),
    ("C04", "c01-recursion-placeholder-as-uri", || front_end_panic("let @u = /a?{ 'b v };\nlet v = [ { 'l (@u on get -> <>) } ];\nres @u on get -> <>;\n")),
    ("C01", "c01-sum-of-uris-as-uri", || {
        match pipeline::run(&Sources::single("res concat (/a | /b) /c;\n"), None) {
            Outcome::Panic { stage, accepted: true, info } => Some(format!("C01 panic in {stage}: {}", info.signature())),
            _ => None,
        }
    }),
    ("C01", "c01-sum-of-uris-as-relation", || {
        match pipeline::run(&Sources::single("res (/a | /b);\n"), None) {
            Outcome::Panic { stage, accepted: true, info } => Some(format!("C01 panic in {stage}: {}", info.signature())),
            _ => None,
        }
    }),
    // The same three evaluation panics as seen by the single-file front ends (C04): the playground entry point.
    ("C04", "c01-recursion-placeholder-memoised", || front_end_panic("let node = / on get -> x;\nlet x = node;\nres node;\nres x;\n")),
    ("C04", "c01-sum-of-uris-as-uri", || front_end_panic("res concat (/a | /b) /c;\n")),
    ("C04", "c01-sum-of-uris-as-relation", || front_end_panic("res (/a | /b);\n")),
    ("C02", "c02-duplicate-path", || {
        let d = doc(&Sources::single("res /a on get -> {};\nres /a on put -> {};\n"))?;
        let item = d.pointer("/paths/~1a")?;
        if item.get("get").is_none() && item.get("put").is_some() {
            Some("C02 witness c02-duplicate-path: the first resource's operation is silently dropped".into())
        } else {
            None
        }
    }),
    ("C02", "c02-duplicate-method", || {
        let d = doc(&Sources::single("res /a on get -> {}, get -> str;\n"))?;
        let s = d.pointer("/paths/~1a/get/responses/default/content/application~1json/schema/type")?;
        if s == "string" {
            Some("C02 witness c02-duplicate-method: the first transfer of a repeated method is silently dropped".into())
        } else {
            None
        }
    }),
    ("C02", "c02-duplicate-range-key", || {
        let d = doc(&Sources::single("res /a on get -> <status=200, {}> :: <status=200, str>;\n"))?;
        let s = d.pointer("/paths/~1a/get/responses/200/content/application~1json/schema/type")?;
        if s == "string" {
            Some("C02 witness c02-duplicate-range-key: the first content of a repeated (status, media) is silently dropped".into())
        } else {
            None
        }
    }),
    ("C02", "c02-reference-name-conflation", || {
        let src = two(
            "use \"b.oal\" as m;\nlet @x = { 'a num };\nres / on get -> @x :: <status=400, m.g>;\n",
            ("b.oal", "let @x = { 'b str };\nlet g = @x;\n"),
        );
        let d = doc(&src)?;
        let n = d.pointer("/components/schemas").and_then(Value::as_object).map(|m| m.len())?;
        let has_b = d.to_string().contains("\"b\"");
        if n == 1 && !has_b {
            Some("C02 witness c02-reference-name-conflation: two modules' @x share one component, the second is lost".into())
        } else {
            None
        }
    }),
    ("C02", "c02-annotation-on-shared", || {
        let d = doc(&Sources::single("let a = rec x { 'p [x] };\nres / on get -> (a `title: \"A\"`) :: <status=400, a>;\n"))?;
        let titled = d.to_string().matches("\"title\":\"A\"").count();
        let comps = d.pointer("/components/schemas").and_then(Value::as_object).map(|m| m.len()).unwrap_or(0);
        if comps == 1 && titled == 0 {
            Some("C02 witness c02-annotation-on-shared: two instantiations with different use-site annotations share one component, the annotation is lost".into())
        } else {
            None
        }
    }),
    ("C05", "c05-annotation-order", || {
        let a = doc(&Sources::single("let @a = {};\nres /x on get -> (@a `title: \"T\"`);\nres /y on get -> @a;\n"))?;
        let b = doc(&Sources::single("let @a = {};\nres /y on get -> @a;\nres /x on get -> (@a `title: \"T\"`);\n"))?;
        if first_diff(&canon(&a), &canon(&b)).is_some() {
            Some("C05 witness c05-annotation-order: permuting two resources changes the shared component (use-site annotation leaks, order dependent)".into())
        } else {
            None
        }
    }),
    ("C18", "c18-rename-shared-qualifier", || {
        // two imports under one qualifier (the later one wins): renaming the qualifier at the first `use` renames that
        // `use` and every `q.` use, which then denote the first module
        use crate::drive::cli::{run_cli, write_sources, TempDir};
        use crate::drive::lsp::{file_uri, ClientDoc, Lsp};
        let main = "use \"s.oal\" as q;\nuse \"a.oal\" as q;\nres / on get -> <q.v>;\n";
        let src = Sources {
            files: vec![("main.oal".into(), main.into()), ("a.oal".into(), "let v = { 'a num };\n".into()), ("s.oal".into(), "let v = \"shadow\";\n".into())],
        };
        let dir = TempDir::new("w18");
        write_sources(&dir.path, &src);
        std::fs::write(dir.path.join("oal.toml"), "[api]\nmain = \"main.oal\"\ntarget = \"out.yaml\"\n").ok()?;
        if !run_cli(&dir.path, "main.oal", "out.yaml", None).success() {
            return None;
        }
        let mut lsp = Lsp::start(&dir.path, None).ok()?;
        let uri = file_uri(&dir.path.join("main.oal"));
        let col = main.find(" q;").map(|i| i as u32 + 1)?;
        let prep = lsp.position_request("textDocument/prepareRename", &uri, 0, col).ok()?;
        if prep.is_null() {
            lsp.shutdown();
            return None;
        }
        let edit = lsp.rename(&uri, 0, col, "zfresh").ok()?;
        lsp.shutdown();
        let mut doc = ClientDoc::new(main);
        let mut es: Vec<(usize, usize, String)> = Vec::new();
        for e in edit.get("changes")?.get(&uri)?.as_array()? {
            let p = |k: &str| [e["range"][k]["line"].as_u64().unwrap_or(0) as u32, e["range"][k]["character"].as_u64().unwrap_or(0) as u32];
            es.push((doc.offset_of(p("start")), doc.offset_of(p("end")), e["newText"].as_str().unwrap_or("").to_owned()));
        }
        es.sort();
        for (s, t, txt) in es.iter().rev() {
            doc.replace(*s, *t, txt);
        }
        std::fs::write(dir.path.join("main.oal"), doc.text()).ok()?;
        if run_cli(&dir.path, "main.oal", "out2.yaml", None).success() {
            None
        } else {
            Some("C18 rename-breaks-acceptance at import-qualifier [qualifier-shared-by-two-imports]".into())
        }
    }),
    ("C03", "c03-operationid-collision", || {
        let d = doc(&Sources::single(
            "res /a-b on get -> {};\nres /a/b on get -> {};\nres /A on put -> {};\nres /a on put -> {};\nres /{ 'x num } on post -> {};\nres /x on post -> {};\n",
        ))?;
        if validate(&d).iter().any(|p| p.class == "duplicate-synthesised-operationId") {
            Some("C03 duplicate-synthesised-operationId".into())
        } else {
            None
        }
    }),
];

impl Witnesses {
    fn mine(&self) -> Vec<&'static W> {
        WITNESSES.iter().filter(|w| w.0 == self.check).collect()
    }
}

impl Workload for Witnesses {
    fn len(&self) -> u64 {
        self.mine().len() as u64
    }
    fn case_json(&self, _seed: u64, idx: u64) -> Value {
        json!({"witness": self.mine()[idx as usize].1})
    }
    fn run(&self, _seed: u64, idx: u64, st: &mut Stats) -> Vec<Violation> {
        let w = self.mine()[idx as usize];
        st.inc("finding_witnesses_replayed");
        match (w.2)() {
            Some(sig) => vec![Violation::new(
                "the witness of a recorded finding reproduces",
                json!({"signature": sig, "witness": w.1}),
            )],
            None => {
                st.inc(&format!("witness_passes:{}", w.1));
                vec![]
            }
        }
    }
    fn run_json(&self, case: &Value, st: &mut Stats) -> Vec<Violation> {
        let k = case["witness"].as_str().unwrap_or("");
        match self.mine().iter().position(|w| w.1 == k) {
            Some(i) => self.run(0, i as u64, st),
            None => vec![],
        }
    }
    fn chunk(&self) -> u64 {
        1
    }
}
