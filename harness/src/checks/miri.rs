//! The Miri stage's workload: tiny but diverse programs and texts (the interpreter costs seconds per case),
//! run through the whole pipeline, the tokenizer/parser walkers and the cached/uncached parsers.
//! The oracle is Miri itself (undefined behaviour in arena, interner, YAML or NonZeroU16 code reached).

use crate::drive::pipeline::{self, Outcome, Sources};
use crate::oracle::syntax::{check_tokens, check_tree, parse_dump};
use crate::pool::{Violation, Workload};
use crate::util::Stats;
use serde_json::{json, Value};

pub const PROGRAMS: [&str; 40] = [
    "res / on get -> {};",
    "let a = num `minimum: 0, maximum: 9.5, example: 4`; res /a on get -> { 'n a };",
    "let s = str `pattern: \"^a$\", enum: [x, y], format: email`; res /s on put : s -> s;",
    "let @o = { 'a! str, 'b? int, 'c [bool] }; res /o on post : @o -> @o;",
    "let p = 'id num; res /x/{ p }/y?{ 'q str } on get -> <>;",
    "let f x y = x & { 'w y }; res / on get -> f {} num;",
    "let r = rec x { 'next x, 'kids [x] }; res / on get -> r;",
    "let a = { 'b b }; let b = { 'a a }; res / on get -> a;",
    "res / on get -> <status=200, media=\"a/b\", headers={ 'H str }, {}> :: <status=4XX, {}> :: <>;",
    "res / on get -> <status=99, {}>;",
    "res / on get -> <status=100, {}>;",
    "res / on get -> <status=599, {}>;",
    "res / on get -> <status=600, {}>;",
    "res / on get -> <status=65535, {}>;",
    "res / on get -> <status=65536, {}>;",
    "res / on get -> <status=4294967296, {}>;",
    "res / on get -> <status=18446744073709551615, {}>;",
    "res / on get -> <status=0, {}>;",
    "let u = concat /a /b/; res concat u /c on delete -> <>;",
    "# description: \"é😉\", examples: { a: \"x\", b: \"y\" }\nlet c = <{}>; res / on get -> c;",
    "let x = num | str | bool; let y = x ~ {} ~ [x]; res / on get -> { 'y y };",
    "let rel = /r on get -> {}; res / on get -> { 'link rel, 'u uri };",
    "res / on patch, put { 'n num } : {} -> <>;",
    "let g h = h num; let k z = [z]; res / on get -> g k;",
    "let a = 'p a;",
    "let a = b; let b = a; res / on get -> a;",
    "let f x = f x; res / on get -> f {};",
    "res / on get -> ({} `a: [`);",
    "res / on get -> ({} `description: &x 1, title: *x`);",
    "let a = {} | num;",
    "res nope;",
    "let a = {}; let a = num;",
    "use \"missing.oal\"; res / on get -> {};",
    "let a = 12345678901234567890123;",
    "let a = (((((((({}))))))));res / on get -> a;",
    "res / on get -> { 'a { 'b { 'c { 'd { 'e num } } } } };",
    "let a = § num;",
    "let a = \"unterminated",
    "/* c */ // d\nres /a/b/c on options, head -> <> `summary: s, tags: [t, u], operationId: oid`;",
    "let @a = num; let @b = @a; res / on get -> { 'x @b, 'y (@a `required: true`) };",
];

pub const TEXTS: [&str; 20] = [
    "",
    " ",
    "\u{feff}let a = num;",
    "let a = ((((",
    "let a = ))))",
    "let a = { 'p { 'p { 'p",
    "let a = [[[[num]]]];",
    "let a = <<<<{}>>>>;",
    "é€😉",
    "let é = num;",
    "let a = num; \r\n let b = a ! ? ! ;",
    "res / on get -> { 'a num,, };",
    "`unterminated",
    "# only annotation",
    "let a = x x x x x x x x;",
    "let a = num | | num;",
    "use \"a\" as ; let",
    "let let let let",
    "res /{ 'a num }/{ 'a str } on get -> <>;",
    "/***/ let a = num;",
];

pub struct MiriCases;

fn run_text(t: &str, program: bool, st: &mut Stats) -> Vec<Violation> {
    let mut out = Vec::new();
    let (toks, _, p1) = check_tokens(t);
    let (p2, _) = check_tree(t, &toks);
    for p in p1.into_iter().chain(p2) {
        out.push(Violation::new("syntax invariant", json!({"signature": format!("miri-stage {p}"), "text": t})));
    }
    let a = parse_dump(t, true);
    // the uncached parser is exponential in nesting: under the interpreter only a small budget is affordable
    match crate::oracle::syntax::parse_dump_limited(t, false, 1500) {
        Some(b) => {
            st.inc("uncached_compared");
            if a.tree != b.tree || a.ok != b.ok {
                out.push(Violation::new("memo visible", json!({"signature": "miri-stage memo-visible", "text": t})));
            }
        }
        None => st.inc("uncached_infeasible"),
    }
    if program {
        let o = pipeline::run(&Sources::single(t), None);
        st.inc(&format!("pipeline:{}", o.class()));
        if let Outcome::Panic { stage, accepted: true, info } = &o {
            out.push(Violation::new(
                "accepted program panicked",
                json!({"signature": format!("miri-stage panic in {stage}: {}", info.signature()), "text": t}),
            ));
        }
    }
    st.inc("miri_cases");
    out
}

impl Workload for MiriCases {
    fn len(&self) -> u64 {
        (PROGRAMS.len() + TEXTS.len()) as u64
    }
    fn case_json(&self, _seed: u64, idx: u64) -> Value {
        let i = idx as usize;
        if i < PROGRAMS.len() {
            json!({"text": PROGRAMS[i], "program": true})
        } else {
            json!({"text": TEXTS[(i - PROGRAMS.len()) % TEXTS.len()], "program": false})
        }
    }
    fn run(&self, seed: u64, idx: u64, st: &mut Stats) -> Vec<Violation> {
        let c = self.case_json(seed, idx);
        run_text(c["text"].as_str().unwrap_or(""), c["program"].as_bool().unwrap_or(false), st)
    }
    fn run_json(&self, case: &Value, st: &mut Stats) -> Vec<Violation> {
        run_text(case["text"].as_str().unwrap_or(""), case["program"].as_bool().unwrap_or(false), st)
    }
}
