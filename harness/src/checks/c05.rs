//! C05: abstraction is free — meaning-preserving rewrites keep acceptance and the emitted document.
//! Metamorphic: both sides go through the real pipeline; no reference semantics.

use super::common::*;
use super::{Acc, Ctx};
use crate::drive::pipeline::{self, Outcome, Sources};
use crate::gen::ast::Program;
use crate::gen::mutate::mutate_ast;
use crate::gen::print::{print_program, print_program_trivia};
use crate::gen::rewrite::{random_rewrite, Applied};
use crate::gen::wt::{generate, Cfg};
use crate::oracle::canon::{canon, diff_class, first_diff};
use crate::pool::{Violation, Workload};
use crate::util::{hash64, Rng, Stats};
use serde_json::{json, Value};

pub struct Rewrites {
    pub n: u64,
}

fn rename_component(doc: &Value, old: &str, new: &str) -> Value {
    fn go(v: &Value, old_ref: &str, new_ref: &str) -> Value {
        match v {
            Value::Object(m) => Value::Object(
                m.iter()
                    .map(|(k, x)| {
                        if k == "$ref" && x.as_str() == Some(old_ref) {
                            (k.clone(), json!(new_ref))
                        } else {
                            (k.clone(), go(x, old_ref, new_ref))
                        }
                    })
                    .collect(),
            ),
            Value::Array(a) => Value::Array(a.iter().map(|x| go(x, old_ref, new_ref)).collect()),
            o => o.clone(),
        }
    }
    let mut d = go(
        doc,
        &format!("#/components/schemas/{old}"),
        &format!("#/components/schemas/{new}"),
    );
    if let Some(s) = d.pointer_mut("/components/schemas").and_then(Value::as_object_mut) {
        if let Some(v) = s.remove(old) {
            s.insert(new.to_owned(), v);
        }
    }
    d
}

fn doc_of(src: &Sources) -> Result<Value, String> {
    match pipeline::run(src, None) {
        Outcome::Doc { json, .. } => Ok(json),
        o => Err(o.class()),
    }
}

/// Applies a rewrite sequence to `p`, checking every intermediate program against the original document.
/// `tight`: the original is printed with as few blanks as the lexer allows (`/items/`, `wrap@item`, `f(x)`), so that
/// every rewritten program, printed with blanks or trivia between all tokens, is also a whitespace rewrite of it.
fn check_sequence(p0: &Program, targets_valid: bool, tight: bool, rng: &mut Rng, st: &mut Stats) -> Vec<Violation> {
    let src0 = sources_of(&if tight { crate::gen::print::print_program_tight(p0) } else { print_program(p0) });
    if tight {
        st.inc("originals_printed_tight");
    }
    let Ok(doc0) = doc_of(&src0) else {
        st.inc("original_not_accepted_skipped");
        return vec![];
    };
    st.inc("accepted_originals");
    let mut expected = doc0;
    let mut p = p0.clone();
    let mut trail: Vec<String> = Vec::new();
    let steps = rng.range(1, 5);
    for _ in 0..steps {
        let Some((q, ap)): Option<(Program, Applied)> = random_rewrite(&p, rng, targets_valid) else {
            st.inc("rewrite_not_applicable");
            continue;
        };
        let printed = if ap.trivia { print_program_trivia(&q, rng) } else { print_program(&q) };
        let src = sources_of(&printed);
        st.inc(&format!("rewrite:{}:{}", ap.what, ap.site));
        trail.push(format!("{}@{}", ap.what, ap.site));
        if let Some((old, new)) = &ap.ref_rename {
            expected = rename_component(&expected, old, new);
        }
        match doc_of(&src) {
            Ok(doc) => {
                if let Some((ptr, l, r)) = first_diff(&canon(&doc), &canon(&expected)) {
                    return vec![Violation::new(
                        "a meaning-preserving rewrite changed the emitted document",
                        json!({"signature": format!("C05 {} changes document:{}", ap.what, diff_class(&ptr)),
                               "rewrites": trail, "pointer": ptr, "rewritten": clip_doc(&l), "original": clip_doc(&r),
                               "original_sources": src0.to_json(), "rewritten_sources": src.to_json()}),
                    )];
                }
                st.inc("steps_equal");
            }
            Err(class) => {
                return vec![Violation::new(
                    "a meaning-preserving rewrite of an accepted program is not accepted",
                    json!({"signature": format!("C05 {} breaks acceptance:{class}", ap.what), "rewrites": trail,
                           "original_sources": src0.to_json(), "rewritten_sources": src.to_json()}),
                )];
            }
        }
        p = q;
    }
    if trail.len() >= 2 {
        st.nontrivial(hash64(&(src0.files.clone(), trail.clone())));
        st.sample(|| json!({"rewrites": trail, "original_sources": src0.to_json()}));
    }
    vec![]
}

fn case_program(seed: u64, idx: u64, st: &mut Stats) -> Option<(Program, bool)> {
    if idx % 4 == 3 {
        // accepted kind-breaking mutants: binding targets may be stale, only target-free rewrites apply
        let mut rng = Rng::for_case(seed, "c05mut", idx);
        let mut p = generate(&mut rng, &Cfg::default());
        mutate_ast(&mut p, &mut rng);
        Some((p, false))
    } else {
        gen_wt_case(seed, "c05", idx, &Cfg::default(), st).map(|c| (c.prog, true))
    }
}

impl Workload for Rewrites {
    fn len(&self) -> u64 {
        self.n
    }
    fn case_json(&self, seed: u64, idx: u64) -> Value {
        json!({"seed": seed, "index": idx})
    }
    fn run(&self, seed: u64, idx: u64, st: &mut Stats) -> Vec<Violation> {
        let Some((p, valid)) = case_program(seed, idx, st) else { return vec![] };
        let mut rng = Rng::for_case(seed, "c05seq", idx);
        let mut out = Vec::new();
        for k in 0..3 {
            out.extend(check_sequence(&p, valid, k == 2, &mut rng, st));
            if !out.is_empty() {
                break;
            }
        }
        out
    }
    fn run_json(&self, case: &Value, st: &mut Stats) -> Vec<Violation> {
        // a recorded violation carries both source sets: re-compile and compare them directly
        if let (Some(a), Some(b)) = (case.get("original_sources"), case.get("rewritten_sources")) {
            let (da, db) = (doc_of(&Sources::from_json(a)), doc_of(&Sources::from_json(b)));
            return match (da, db) {
                (Ok(x), Ok(y)) if first_diff(&canon(&x), &canon(&y)).is_none() => vec![],
                _ => vec![Violation::new("rewritten sources still differ", json!({"signature": "C05 replay"}))],
            };
        }
        self.run(case["seed"].as_u64().unwrap_or(1), case["index"].as_u64().unwrap_or(0), st)
    }
    fn chunk(&self) -> u64 {
        50
    }
}

/// Hand-written corpus programs: blanks, newlines and comments inserted between any two tokens
/// (token boundaries from the implementation's tokenizer) must keep acceptance and the document.
pub struct CorpusTrivia {
    pub variants: u64,
}

fn trivia_text(text: &str, rng: &mut Rng) -> String {
    let toks = crate::gen::mutate::token_ranges(text);
    let mut out = String::new();
    let mut prev_end = 0;
    for (s, e) in toks {
        // keep the original separator (it may be required, e.g. after a line annotation) and add to it
        out.push_str(&text[prev_end..s]);
        if s > 0 {
            out.push_str(match rng.below(8) {
                0 => " ",
                1 => "\n",
                2 => " /* c */ ",
                3 => " // c\n",
                4 => "\r\n",
                5 => "\t",
                _ => "",
            });
        }
        out.push_str(&text[s..e]);
        prev_end = e;
    }
    out.push_str(&text[prev_end..]);
    out
}

impl Workload for CorpusTrivia {
    fn len(&self) -> u64 {
        super::explore::corpus().len() as u64 * self.variants
    }
    fn case_json(&self, seed: u64, idx: u64) -> Value {
        json!({"seed": seed, "index": idx, "program": super::explore::corpus()[(idx / self.variants) as usize].0})
    }
    fn run(&self, seed: u64, idx: u64, st: &mut Stats) -> Vec<Violation> {
        let (name, src) = &super::explore::corpus()[(idx / self.variants) as usize];
        let Ok(d0) = doc_of(src) else {
            st.inc("corpus_program_not_accepted_skipped");
            return vec![];
        };
        let mut rng = Rng::for_case(seed, "c05corpus", idx);
        let mut v = src.clone();
        for f in v.files.iter_mut() {
            f.1 = trivia_text(&f.1, &mut rng);
        }
        st.inc("corpus_trivia_variants");
        st.nontrivial(hash64(&v.files));
        match doc_of(&v) {
            Ok(d) if first_diff(&canon(&d), &canon(&d0)).is_none() => vec![],
            Ok(_) => vec![Violation::new(
                "inserting blanks/comments between tokens changed the emitted document",
                json!({"signature": "C05 corpus trivia changes document", "program": name, "original_sources": src.to_json(), "rewritten_sources": v.to_json()}),
            )],
            Err(class) => vec![Violation::new(
                "inserting blanks/comments between tokens broke acceptance",
                json!({"signature": format!("C05 corpus trivia breaks acceptance:{class}"), "program": name, "original_sources": src.to_json(), "rewritten_sources": v.to_json()}),
            )],
        }
    }
    fn run_json(&self, case: &Value, st: &mut Stats) -> Vec<Violation> {
        if let (Some(a), Some(b)) = (case.get("original_sources"), case.get("rewritten_sources")) {
            let (da, db) = (doc_of(&Sources::from_json(a)), doc_of(&Sources::from_json(b)));
            return match (da, db) {
                (Ok(x), Ok(y)) if first_diff(&canon(&x), &canon(&y)).is_none() => vec![],
                _ => vec![Violation::new("rewritten sources still differ", json!({"signature": "C05 replay"}))],
            };
        }
        self.run(case["seed"].as_u64().unwrap_or(1), case["index"].as_u64().unwrap_or(0), st)
    }
    fn chunk(&self) -> u64 {
        50
    }
}

/// Hand-written corpus programs under concrete-syntax rewrites: the sites come from the implementation's own
/// syntax tree and token list (statement spans, term spans, identifier tokens), the rewrites are text edits.
pub struct CorpusRewrites {
    pub variants: u64,
}

struct CstInfo {
    /// (start, end, is_use) of the top-level statements, in source order
    stmts: Vec<(usize, usize, bool)>,
    /// spans of terms
    terms: Vec<(usize, usize)>,
    /// spellings bound by a plain (non-@) declaration
    decl_names: Vec<String>,
    /// (start, end) of identifier tokens
    idents: Vec<(usize, usize)>,
}

fn cst_info(text: &str) -> Option<CstInfo> {
    use oal_compiler::tree::Core;
    use oal_model::grammar::AbstractSyntaxNode;
    use oal_syntax::parser as syn;
    let (tree, errs) = oal_syntax::parse::<_, Core>(crate::oracle::syntax::loc(), text);
    if !errs.is_empty() {
        return None;
    }
    let tree = tree?;
    let mut info = CstInfo {
        stmts: vec![],
        terms: vec![],
        decl_names: vec![],
        idents: vec![],
    };
    let sp = |n: oal_model::grammar::NodeRef<Core, syn::Gram>| n.span().map(|s| (s.start(), s.end()));
    for node in tree.root().descendants() {
        if syn::Import::<Core>::cast(node).is_some() {
            let (a, b) = sp(node)?;
            info.stmts.push((a, b, true));
        } else if let Some(d) = syn::Declaration::<Core>::cast(node) {
            let (a, b) = sp(node)?;
            info.stmts.push((a, b, false));
            if !d.ident().is_reference() {
                info.decl_names.push(d.ident().as_ref().to_owned());
            }
        } else if syn::Resource::<Core>::cast(node).is_some() {
            let (a, b) = sp(node)?;
            info.stmts.push((a, b, false));
        } else if syn::Terminal::<Core>::cast(node).is_some() {
            if let Some(r) = sp(node) {
                info.terms.push(r);
            }
        }
    }
    let (toks, _, _) = crate::oracle::syntax::check_tokens(text);
    for t in toks {
        if t.kind == oal_syntax::lexer::TokenKind::IdentifierValue {
            info.idents.push((t.start, t.end));
        }
    }
    info.stmts.sort();
    Some(info)
}

/// One concrete-syntax rewrite of `src`; None if it has no site.
fn corpus_rewrite(src: &Sources, rng: &mut Rng) -> Option<(Sources, &'static str)> {
    let mut v = src.clone();
    match rng.below(4) {
        0 => {
            for f in v.files.iter_mut() {
                f.1 = trivia_text(&f.1, rng);
            }
            Some((v, "insert-trivia"))
        }
        1 => {
            // parenthesise one term
            let fi = rng.below(v.files.len());
            let info = cst_info(&v.files[fi].1)?;
            if info.terms.is_empty() {
                return None;
            }
            let (a, b) = *rng.pick(&info.terms);
            let t = &v.files[fi].1;
            // a term may end in a line comment only through trivia, which is outside its span
            v.files[fi].1 = format!("{}({}){}", &t[..a], &t[a..b], &t[b..]);
            Some((v, "parenthesise"))
        }
        2 => {
            // permute the statements of one module; `use` lines keep their relative order
            let fi = rng.below(v.files.len());
            let info = cst_info(&v.files[fi].1)?;
            if info.stmts.len() < 2 {
                return None;
            }
            let t = v.files[fi].1.clone();
            let mut segs: Vec<(String, bool)> = Vec::new();
            let mut prev = 0;
            for (_, e, is_use) in &info.stmts {
                segs.push((t[prev..*e].to_owned(), *is_use));
                prev = *e;
            }
            let tail = t[prev..].to_owned();
            let uses: Vec<String> = segs.iter().filter(|s| s.1).map(|s| s.0.clone()).collect();
            let mut rest: Vec<String> = segs.iter().filter(|s| !s.1).map(|s| s.0.clone()).collect();
            rng.shuffle(&mut rest);
            let mut at = 0;
            for u in uses {
                at = rng.range(at, rest.len());
                rest.insert(at, u);
                at += 1;
            }
            let mut out = String::new();
            for r in rest {
                out.push_str(&r);
                out.push('\n');
            }
            out.push_str(&tail);
            v.files[fi].1 = out;
            Some((v, "permute-statements"))
        }
        _ => {
            // rename one declared spelling everywhere to a fresh one
            let mut names: Vec<String> = Vec::new();
            let mut infos = Vec::new();
            for f in &v.files {
                let i = cst_info(&f.1)?;
                names.extend(i.decl_names.iter().cloned());
                infos.push(i);
            }
            names.sort();
            names.dedup();
            if names.is_empty() {
                return None;
            }
            let old = rng.pick(&names).clone();
            let mut new = format!("zq{}", rng.below(100_000));
            while v.files.iter().any(|f| f.1.contains(&new)) {
                new.push('x');
            }
            for (f, i) in v.files.iter_mut().zip(infos.iter()) {
                let mut out = String::new();
                let mut prev = 0;
                for (a, b) in &i.idents {
                    if f.1[*a..*b] == old {
                        out.push_str(&f.1[prev..*a]);
                        out.push_str(&new);
                        prev = *b;
                    }
                }
                out.push_str(&f.1[prev..]);
                f.1 = out;
            }
            Some((v, "rename-spelling"))
        }
    }
}

impl Workload for CorpusRewrites {
    fn len(&self) -> u64 {
        super::explore::corpus().len() as u64 * self.variants
    }
    fn case_json(&self, seed: u64, idx: u64) -> Value {
        json!({"seed": seed, "index": idx, "program": super::explore::corpus()[(idx / self.variants) as usize].0})
    }
    fn run(&self, seed: u64, idx: u64, st: &mut Stats) -> Vec<Violation> {
        let (name, src) = &super::explore::corpus()[(idx / self.variants) as usize];
        let Ok(d0) = doc_of(src) else {
            st.inc("corpus_program_not_accepted_skipped");
            return vec![];
        };
        let d0 = canon(&d0);
        let mut rng = Rng::for_case(seed, "c05corpusrw", idx);
        let mut cur = src.clone();
        let mut trail: Vec<&'static str> = Vec::new();
        let steps = rng.range(1, 4);
        for _ in 0..steps {
            let Some((next, what)) = corpus_rewrite(&cur, &mut rng) else {
                st.inc("corpus_rewrite_no_site");
                continue;
            };
            trail.push(what);
            st.inc(&format!("corpus_rewrite:{what}"));
            match doc_of(&next) {
                Ok(d) if first_diff(&canon(&d), &d0).is_none() => {}
                Ok(d) => {
                    return vec![Violation::new(
                        "a meaning-preserving rewrite of a corpus program changed the emitted document",
                        json!({"signature": format!("C05 corpus {what} changes document:{}", first_diff(&canon(&d), &d0).map(|x| diff_class(&x.0)).unwrap_or_default()), "program": name, "rewrites": trail, "original_sources": src.to_json(), "rewritten_sources": next.to_json()}),
                    )]
                }
                Err(class) => {
                    return vec![Violation::new(
                        "a meaning-preserving rewrite of a corpus program broke acceptance",
                        json!({"signature": format!("C05 corpus {what} breaks acceptance:{class}"), "program": name, "rewrites": trail, "original_sources": src.to_json(), "rewritten_sources": next.to_json()}),
                    )]
                }
            }
            cur = next;
        }
        if trail.len() >= 2 {
            st.nontrivial(hash64(&(&cur.files, &trail)));
        }
        vec![]
    }
    fn run_json(&self, case: &Value, st: &mut Stats) -> Vec<Violation> {
        if let (Some(a), Some(b)) = (case.get("original_sources"), case.get("rewritten_sources")) {
            let (da, db) = (doc_of(&Sources::from_json(a)), doc_of(&Sources::from_json(b)));
            return match (da, db) {
                (Ok(x), Ok(y)) if first_diff(&canon(&x), &canon(&y)).is_none() => vec![],
                _ => vec![Violation::new("rewritten sources still differ", json!({"signature": "C05 replay"}))],
            };
        }
        self.run(case["seed"].as_u64().unwrap_or(1), case["index"].as_u64().unwrap_or(0), st)
    }
    fn chunk(&self) -> u64 {
        50
    }
}

pub fn run(ctx: &Ctx) -> i32 {
    let mut acc = Acc::new(ctx);
    let ct = CorpusTrivia {
        variants: if ctx.quick() { 8 } else { 200 },
    };
    acc.pool(&ct, "c05corpus", true);
    let cr = CorpusRewrites {
        variants: if ctx.quick() { 16 } else { 400 },
    };
    acc.pool(&cr, "c05corpusrw", true);
    let wl = Rewrites {
        n: if ctx.quick() { 12_000 } else { 300_000 },
    };
    acc.pool(&wl, "c05", true);
    // Canary: the comparison must see a changed document.
    let a = doc_of(&Sources::single("let a = {}; res / on get -> a;"));
    let b = doc_of(&Sources::single("let a = { 'x num }; res / on get -> a;"));
    let canary = matches!((&a, &b), (Ok(x), Ok(y)) if first_diff(&canon(x), &canon(y)).is_some());
    acc.observed.insert("canary_changed_document_flagged".into(), json!(canary));
    if !canary {
        acc.inconclusive.push("comparison canary did not fire".into());
    }
    acc.witnesses();
    acc.finish(
        "exploration",
        "accepted G-wt programs (3 of 4) and accepted kind-breaking mutants (1 of 4); per program 3 random sequences of 1-5 rewrites out of: parenthesise, name with a fresh let, inline a declaration, abstract into a single-use function, rename a binder (declaration, @reference, parameter, rec binder, qualifier), permute statements, insert blanks/newlines/comments between tokens, move a dependency-closed group of declarations into an imported module; every intermediate program must be accepted and emit the original document up to generated names (for an @name renaming: with that component renamed); mutants only get the purely syntactic rewrites (parenthesise, trivia); non-trivial = a sequence of >=2 applied rewrites; distinct by (sources, rewrite trail)",
        if ctx.quick() { 1000 } else { 10000 },
        false,
        &["side conditions of DESIGN.md C05/section 8 (annotation-free sites, closedness, no new cut points, capture-free inlining)"],
        json!({}),
    )
}
