//! C14: a base description is preserved; only paths and schema components are replaced.

use super::common::*;
use super::{Acc, Ctx};
use crate::drive::cli::{run_cli, write_sources, TempDir};
use crate::drive::pipeline::{self, Outcome, Sources};
use crate::gen::base::gen_base;
use crate::gen::wt::Cfg;
use crate::oracle::canon::{canon, first_diff};
use crate::pool::{Violation, Workload};
use crate::util::{guard, hash64, Rng, Stats};
use serde_json::{json, Map, Value};

pub struct Bases {
    pub n: u64,
    pub cli_every: u64,
}

fn norm(v: &Value) -> Value {
    // numbers by value, keys sorted; no component renaming involved here
    canon(&json!({"x": v}))["x"].clone()
}

fn obj<'a>(v: &'a Value, k: &str) -> Option<&'a Map<String, Value>> {
    v.get(k).and_then(Value::as_object)
}

/// Field-wise comparison of the merged output `o` with the base `b` (as the tool's model represents it)
/// and the base-less output `o0`.
pub fn compare_merge(o: &Value, b: &Value, o0: &Value, level: &str) -> Vec<(String, String)> {
    let mut out = Vec::new();
    let empty = Map::new();
    let (om, bm) = (o.as_object().unwrap_or(&empty), b.as_object().unwrap_or(&empty));
    let mut keys: Vec<&String> = om.keys().chain(bm.keys()).collect();
    keys.sort();
    keys.dedup();
    for k in keys {
        if k == "paths" || k == "components" {
            continue;
        }
        if om.get(k).map(norm) != bm.get(k).map(norm) {
            out.push((format!("top-level-{level}:{k}"), format!("output {:?} base {:?}", om.get(k), bm.get(k))));
        }
    }
    let (oc, bc) = (obj(o, "components").unwrap_or(&empty), obj(b, "components").unwrap_or(&empty));
    let mut keys: Vec<&String> = oc.keys().chain(bc.keys()).collect();
    keys.sort();
    keys.dedup();
    for k in keys {
        if k == "schemas" {
            continue;
        }
        if oc.get(k).map(norm) != bc.get(k).map(norm) {
            out.push((format!("components-{level}:{k}"), format!("output {:?} base {:?}", oc.get(k), bc.get(k))));
        }
    }
    // paths and schema components come entirely from the program: compared together, up to generated names
    let e = json!({});
    let part = |d: &Value| {
        json!({"paths": d.get("paths").unwrap_or(&e), "components": {"schemas": d.pointer("/components/schemas").unwrap_or(&e)}})
    };
    if let Some((ptr, l, r)) = first_diff(&canon(&part(o)), &canon(&part(o0))) {
        let class = if ptr.starts_with("/paths") { "paths-not-from-program" } else { "schemas-not-from-program" };
        out.push((class.into(), format!("at {ptr}: with base {l}, without base {r}")));
    }
    out
}

fn check_pair(src: &Sources, base: &Value, via_cli: bool, st: &mut Stats) -> Vec<Violation> {
    let base_yaml = serde_yaml::to_string(base).unwrap_or_default();
    let parsed: openapiv3::OpenAPI = match serde_yaml::from_str(&base_yaml) {
        Ok(p) => p,
        Err(_) => {
            st.inc("base_not_parseable_skipped");
            return vec![];
        }
    };
    let model = serde_json::to_value(&parsed).unwrap_or(Value::Null);
    let verbatim = norm(&model) == norm(base);
    st.inc(if verbatim { "base_round_trips_verbatim" } else { "base_normalised_by_model" });
    let o0 = match pipeline::run(src, None) {
        Outcome::Doc { json, .. } => json,
        _ => {
            st.inc("program_not_accepted_skipped");
            return vec![];
        }
    };
    let o = if via_cli {
        let dir = TempDir::new("c14");
        write_sources(&dir.path, src);
        // The target usually exists already: first generate it from a richer base (more tags, a trailing
        // extension), then from the base under test; what the second run writes must be the whole file.
        let mut richer = base.clone();
        if let Some(m) = richer.as_object_mut() {
            let mut tags = m.get("tags").and_then(Value::as_array).cloned().unwrap_or_default();
            for t in ["zz-old-a", "zz-old-b", "zz-old-c"] {
                tags.push(json!({"name": t, "description": "only in the previous generation of the target"}));
            }
            m.insert("tags".into(), Value::Array(tags));
            m.insert("x-zz-previous".into(), json!({"note": "only in the previous generation of the target", "pad": "x".repeat(200)}));
        }
        let _ = std::fs::write(dir.path.join("base.yaml"), serde_yaml::to_string(&richer).unwrap_or_default());
        let r0 = run_cli(&dir.path, &src.files[0].0, "out.yaml", Some("base.yaml"));
        st.inc("cli_runs");
        if r0.success() {
            st.inc("cli_targets_regenerated_over_a_longer_one");
        }
        let _ = std::fs::write(dir.path.join("base.yaml"), &base_yaml);
        // every third run regenerates in place: the base is the target of the previous generation
        let in_place = hash64(&base_yaml) % 3 == 0;
        let conf_other_base = !in_place && hash64(&base_yaml) % 3 == 1;
        let r = if conf_other_base {
            st.inc("cli_runs_with_base_option_over_configuration_file");
            let _ = std::fs::write(
                dir.path.join("other-base.yaml"),
                "openapi: 3.0.3\ninfo:\n  title: NOT THE BASE\n  version: 9.9.9\npaths: {}\ntags:\n  - name: not-the-base\n",
            );
            let _ = std::fs::write(
                dir.path.join("oal.toml"),
                format!("[api]\nmain = \"{}\"\ntarget = \"out.yaml\"\nbase = \"other-base.yaml\"\n", src.files[0].0),
            );
            crate::drive::cli::run_cli_conf_opts(&dir.path, "oal.toml", &["-b", "base.yaml"])
        } else if in_place {
            st.inc("cli_runs_with_base_and_target_the_same_file");
            let _ = std::fs::write(dir.path.join("out.yaml"), &base_yaml);
            run_cli(&dir.path, &src.files[0].0, "out.yaml", Some("out.yaml"))
        } else {
            run_cli(&dir.path, &src.files[0].0, "out.yaml", Some("base.yaml"))
        };
        st.inc("cli_runs");
        if !r.success() {
            return vec![Violation::new(
                "oal-cli failed on an accepted program with a valid base",
                json!({"signature": "C14 cli-failed-with-base", "stderr": crate::util::clip(&r.stderr, 400)}),
            )];
        }
        let text = std::fs::read_to_string(dir.path.join("out.yaml")).unwrap_or_default();
        match serde_yaml::from_str::<Value>(&text) {
            Ok(v) => v,
            Err(e) => {
                return vec![Violation::new(
                    "the target written with a base does not parse",
                    json!({"signature": "C14 cli-output-unparseable", "error": e.to_string()}),
                )]
            }
        }
    } else {
        match guard(|| pipeline::run(src, Some(parsed.clone()))) {
            Ok(Outcome::Doc { json, .. }) => json,
            Ok(o) => {
                return vec![Violation::new(
                    "an accepted program is not emitted when a base is supplied",
                    json!({"signature": format!("C14 with-base:{}", o.class())}),
                )]
            }
            Err(p) => {
                return vec![Violation::new(
                    "merging with a base panicked",
                    json!({"signature": format!("C14 panic {}", p.signature())}),
                )]
            }
        }
    };
    st.inc("merges_compared");
    // the merged document must still be closed and structurally valid (C03's validator)
    // a base whose carried-over components refer to schema components asks for references that dangle once the
    // schemas are the program's: that is the base's doing
    let open_base = ["parameters", "responses", "headers", "requestBodies"]
        .iter()
        .any(|k| base.pointer(&format!("/components/{k}")).is_some_and(|c| c.to_string().contains("\"$ref\"")));
    if open_base {
        st.inc("bases_whose_carried_over_components_refer_to_base_schemas");
    }
    for pr in crate::oracle::validate::validate(&o) {
        if pr.class != "duplicate-synthesised-operationId" && !(open_base && pr.class == "dangling-ref") {
            return vec![Violation::new(
                "the document merged with a base is not closed / structurally valid",
                json!({"signature": format!("C14 merged-document {}", pr.class), "detail": pr.detail}),
            )];
        }
    }
    let mut diffs = compare_merge(&o, &model, &o0, "model");
    if verbatim {
        diffs.extend(compare_merge(&o, base, &o0, "raw"));
    }
    let mut out = Vec::new();
    for (class, detail) in diffs.into_iter().take(3) {
        out.push(Violation::new(
            "the output differs from the base outside paths/schemas, or its paths/schemas are not the program's",
            json!({"signature": format!("C14 {class}"), "detail": crate::util::clip(&detail, 500), "via_cli": via_cli}),
        ));
    }
    out
}

impl Bases {
    fn case(&self, seed: u64, idx: u64, st: &mut Stats) -> Option<(Sources, Value)> {
        let c = gen_wt_case(seed, "c14", idx, &Cfg::default(), st)?;
        let mut rng = Rng::for_case(seed, "c14base", idx);
        // every other base is open: carried-over components refer to schemas of the base, mandatory strings may be empty
        let base = if idx % 2 == 1 { crate::gen::base::gen_base_open(&mut rng, idx % 3 != 0) } else { gen_base(&mut rng, idx % 3 != 0) };
        Some((c.sources, base))
    }
}

impl Workload for Bases {
    fn len(&self) -> u64 {
        self.n
    }
    fn case_json(&self, seed: u64, idx: u64) -> Value {
        let mut st = Stats::new();
        match self.case(seed, idx, &mut st) {
            Some((s, b)) => json!({"sources": s.to_json(), "base": b, "via_cli": idx % self.cli_every == 0}),
            None => json!({"skipped": true}),
        }
    }
    fn run(&self, seed: u64, idx: u64, st: &mut Stats) -> Vec<Violation> {
        let Some((s, b)) = self.case(seed, idx, st) else { return vec![] };
        let has_paths = b.get("paths").and_then(Value::as_object).is_some_and(|p| !p.is_empty());
        let has_schemas = b.pointer("/components/schemas").and_then(Value::as_object).is_some_and(|p| !p.is_empty());
        if has_paths {
            st.inc("bases_with_paths");
        }
        if has_schemas {
            st.inc("bases_with_schemas");
        }
        if has_paths || has_schemas || b.get("components").is_some() {
            st.nontrivial(hash64(&(s.files.clone(), b.to_string())));
            st.sample(|| json!({"base": b, "sources": s.to_json()}));
        }
        check_pair(&s, &b, idx % self.cli_every == 0, st)
    }
    fn run_json(&self, case: &Value, st: &mut Stats) -> Vec<Violation> {
        if case.get("skipped").is_some() {
            return vec![];
        }
        check_pair(&Sources::from_json(&case["sources"]), &case["base"], case["via_cli"].as_bool().unwrap_or(false), st)
    }
    fn chunk(&self) -> u64 {
        50
    }
}

pub fn run(ctx: &Ctx) -> i32 {
    let mut acc = Acc::new(ctx);
    let wl = Bases {
        n: if ctx.quick() { 10_000 } else { 100_000 },
        cli_every: if ctx.quick() { 25 } else { 100 },
    };
    acc.pool(&wl, "c14", false);
    // Canary: overwriting the whole components object must be flagged.
    let b = json!({"openapi": "3.0.3", "info": {"title": "t", "version": "1"}, "paths": {}, "components": {"securitySchemes": {"d": {"type": "http", "scheme": "bearer"}}}});
    let o = json!({"openapi": "3.0.3", "info": {"title": "t", "version": "1"}, "paths": {}, "components": {}});
    let canary = !compare_merge(&o, &b, &json!({"paths": {}, "components": {}}), "model").is_empty();
    acc.observed.insert("canary_lost_security_schemes_flagged".into(), json!(canary));
    if !canary {
        acc.inconclusive.push("merge canary did not fire".into());
    }
    if acc.stats.get("merges_compared") == 0 {
        acc.inconclusive.push("no merge was compared".into());
    }
    acc.finish(
        "exploration",
        "generated base documents over the OpenAPI object model (info with contact/license, servers with variables, security, tags, externalDocs, components.{securitySchemes, parameters, responses, headers, examples, requestBodies, links}, pre-existing paths and schemas incl. names equal to the program's, x- extensions) x G-wt programs; output of Builder::with_base (and of the real oal-cli -b for a slice) compared field-wise with the base as the tool's model represents it, with the raw base when the model round-trips it verbatim, and with the base-less output for paths and schemas; the CLI slice first generates the target from a richer base, then from the base under test (a target is normally regenerated); bases carry x- keys directly under paths; non-trivial = base has components, paths or schemas; distinct by (sources, base)",
        if ctx.quick() { 500 } else { 5000 },
        false,
        &["half of the bases are closed w.r.t. what survives the merge; in the other half carried-over components may refer to schema components of the base (the references then dangle in the output, which is not judged) and mandatory strings may be empty"],
        json!({}),
    )
}
