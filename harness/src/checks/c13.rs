//! C13: front ends agree, and the CLI writes the target only on success.

use super::common::*;
use super::explore::explore_case;
use super::{Acc, Ctx};
use crate::drive::cli::{run_cli, run_cli_conf, write_sources, CliResult, TempDir};
use crate::drive::pipeline::{self, Outcome, Sources};
use crate::gen::wt::Cfg;
use crate::oracle::canon::{canon, first_diff};
use crate::pool::{Violation, Workload};
use crate::util::{guard, hash64, Rng, Stats};
use serde_json::{json, Value};
use std::os::unix::fs::MetadataExt;

pub struct Workspaces {
    pub n: u64,
}

const SENTINEL_HEAD: &str = "# sentinel: pre-existing target, must survive a failed compilation\nold: true\n";

/// A pre-existing target that is longer than any generated document (so that a write that does not truncate shows).
fn sentinel() -> String {
    let mut s = String::from(SENTINEL_HEAD);
    for i in 0..4000 {
        s.push_str(&format!("# padding line {i} of the previous document\n"));
    }
    s
}

/// Injects one error of a chosen phase into module `k` of accepted sources.
fn inject(src: &mut Sources, rng: &mut Rng) -> &'static str {
    let k = rng.below(src.files.len());
    let text = src.files[k].1.clone();
    // statement boundaries: after each ';' at top level is good enough for generated programs (one statement per line)
    let mut cuts: Vec<usize> = vec![0];
    for (i, l) in text.match_indices(";\n") {
        let _ = l;
        cuts.push(i + 2);
    }
    // keep `use` lines first: insert after the last use line
    let after_use = text.rfind("use \"").and_then(|i| text[i..].find(";\n").map(|j| i + j + 2)).unwrap_or(0);
    let cuts: Vec<usize> = cuts.into_iter().filter(|c| *c >= after_use).collect();
    let at = if cuts.is_empty() { text.len() } else { *rng.pick(&cuts) };
    let (what, snippet): (&'static str, String) = match rng.below(12) {
        0 if rng.chance(1, 2) => {
            // a byte order mark in front of an otherwise valid file: a lexical error for every front end
            src.files[k].1.insert(0, '\u{feff}');
            return "lexical";
        }
        0 => ("lexical", "let zzlex = § num;\n".into()),
        1 => ("lexical", "let zzlex = 123456789012345678901234567890;\n".into()),
        2 => ("syntax", "let let zzsyn = ;\n".into()),
        3 => ("syntax", "res / on get -> { 'a num ;\n".into()),
        // a file that does not exist, or something that exists and is not a file: the directory of the module
        4 => ("import-missing", if rng.chance(1, 2) { "use \"zz-nope.oal\";\n".into() } else { "use \".\";\n".into() }),
        5 => ("resolution", "let zzres = zz_undefined;\n".into()),
        6 => ("resolution", format!("let zzdup = {{}};\nlet zzdup = num;\n")),
        7 => ("type", "let zztype = {} | num;\n".into()),
        8 => ("cycle", "let zzc1 = zzc2;\nlet zzc2 = zzc1;\n".into()),
        9 => ("evaluation", "res /zz-eval on get -> <status=999, {}>;\n".into()),
        10 => ("evaluation", "res /zz-yaml on get -> ({} `a: [`);\n".into()),
        _ => ("import-cycle", format!("use \"{}\";\n", src.files[k].0.rsplit('/').next().unwrap_or("main.oal"))),
    };
    // evaluation errors only arise in what the main module evaluates
    let (k, at) = if what == "evaluation" {
        let t = &src.files[0].1;
        let au = t.rfind("use \"").and_then(|i| t[i..].find(";\n").map(|j| i + j + 2)).unwrap_or(0);
        (0, au)
    } else if what.starts_with("import") {
        (k, 0)
    } else {
        (k, at)
    };
    let t = &mut src.files[k].1;
    let at = at.min(t.len());
    t.insert_str(at, &snippet);
    what
}

fn strip_ansi(s: &str) -> String {
    let mut out = String::new();
    let mut it = s.chars().peekable();
    while let Some(c) = it.next() {
        if c == '\u{1b}' {
            if it.peek() == Some(&'[') {
                it.next();
                for d in it.by_ref() {
                    if d.is_ascii_alphabetic() {
                        break;
                    }
                }
            }
        } else {
            out.push(c);
        }
    }
    out
}

/// Extracts `file://…:line:col` locations of ariadne reports.
fn report_locations(stderr: &str) -> Vec<(String, usize, usize)> {
    let s = strip_ansi(stderr);
    let mut out = Vec::new();
    for line in s.lines() {
        if let Some(i) = line.find("file://") {
            let rest = line[i..].trim_end_matches(|c: char| c == ']' || c.is_whitespace());
            let mut parts = rest.rsplitn(3, ':');
            let col = parts.next().and_then(|x| x.trim().parse::<usize>().ok());
            let ln = parts.next().and_then(|x| x.trim().parse::<usize>().ok());
            let url = parts.next();
            if let (Some(c), Some(l), Some(u)) = (col, ln, url) {
                out.push((u.trim().to_owned(), l, c));
            }
        }
    }
    out
}

struct Snapshot {
    bytes: Vec<u8>,
    ino: u64,
    mtime: (i64, i64),
}

fn snapshot(p: &std::path::Path) -> Option<Snapshot> {
    let md = std::fs::metadata(p).ok()?;
    Some(Snapshot {
        bytes: std::fs::read(p).ok()?,
        ino: md.ino(),
        mtime: (md.mtime(), md.mtime_nsec()),
    })
}

fn lsp_cycle_on_disk(main: &std::path::Path) -> Result<usize, String> {
    let url = lsp_types::Url::from_file_path(main).map_err(|_| "bad path".to_owned())?;
    let loc = oal_model::locator::Locator::from(url);
    let mut ws = oal_client::lsp::Workspace::default();
    if let Ok(mods) = ws.load(&loc) {
        let _ = ws.eval(&mods);
    }
    let d = ws.diagnostics().map_err(|e| e.to_string())?;
    Ok(d.values().map(|v| v.len()).sum())
}

fn check_workspace(src: &Sources, phase: &str, with_base: bool, use_conf: bool, st: &mut Stats) -> Vec<Violation> {
    let mut out = Vec::new();
    // a program on which the library pipeline itself panics (kind-breaking mutants in the trigger shapes of C01's open
    // findings) makes every front end crash alike: that is C01's and C04's subject, there is no agreement to judge
    if matches!(pipeline::run(src, None), Outcome::Panic { .. }) {
        st.inc("library_panics_left_to_C01");
        return out;
    }
    let dir = TempDir::new("c13");
    write_sources(&dir.path, src);
    let main = &src.files[0].0;
    let target = dir.path.join("out.yaml");
    std::fs::write(&target, sentinel()).unwrap();
    // make the sentinel's mtime observable: an old timestamp is not needed, inode + bytes + mtime are compared
    let base = if with_base {
        std::fs::write(
            dir.path.join("base.yaml"),
            "openapi: 3.0.3\ninfo:\n  title: Base\n  version: 1.0.0\npaths: {}\ncomponents:\n  securitySchemes:\n    default:\n      type: http\n      scheme: bearer\n",
        )
        .unwrap();
        Some("base.yaml")
    } else {
        None
    };
    let before = snapshot(&target).unwrap();
    // every third configuration-file run also passes options, which take precedence over the file: the file
    // names another (existing) target and a main module that does not exist
    let overridden = use_conf && hash64(&src.files) % 3 == 0;
    let other_target = dir.path.join("conf-out.yaml");
    let r: CliResult = if overridden {
        st.inc("cli_runs_with_options_over_config_file");
        std::fs::write(&other_target, sentinel()).unwrap();
        let mut conf = String::from("[api]\nmain = \"not-the-main.oal\"\ntarget = \"conf-out.yaml\"\n");
        if with_base {
            conf.push_str("base = \"not-the-base.yaml\"\n");
        }
        std::fs::write(dir.path.join("oal.toml"), conf).unwrap();
        let mut opts = vec!["-m", main.as_str(), "-t", "out.yaml"];
        if with_base {
            opts.extend(["-b", "base.yaml"]);
        }
        crate::drive::cli::run_cli_conf_opts(&dir.path, "oal.toml", &opts)
    } else if use_conf {
        let mut conf = format!("[api]\nmain = \"{main}\"\ntarget = \"out.yaml\"\n");
        if with_base {
            conf.push_str("base = \"base.yaml\"\n");
        }
        std::fs::write(dir.path.join("oal.toml"), conf).unwrap();
        run_cli_conf(&dir.path, "oal.toml")
    } else {
        // an options-only run is not influenced by an oal.toml that happens to lie in the working directory
        // (the language server's convention), be it well-formed or not
        let ambient = match hash64(&src.files) % 3 {
            0 => "this is = = not a configuration file\n",
            1 => "[api]\nmain = \"not-the-main.oal\"\ntarget = \"conf-out.yaml\"\nbase = \"not-the-base.yaml\"\n",
            _ => "title = \"no api table\"\n",
        };
        std::fs::write(dir.path.join("oal.toml"), ambient).unwrap();
        st.inc("cli_runs_with_options_only_next_to_an_unrelated_configuration_file");
        run_cli(&dir.path, main, "out.yaml", base)
    };
    st.inc("cli_runs");
    let mut viol = |sig: String, what: &str, detail: Value| {
        out.push(Violation::new(what, json!({"signature": sig, "detail": detail, "phase": phase, "stderr": crate::util::clip(&strip_ansi(&r.stderr), 600)})));
    };
    if r.timed_out {
        viol("C13 cli-timeout".into(), "oal-cli did not finish", Value::Null);
        return out;
    }
    if overridden && std::fs::read(&other_target).ok().as_deref() != Some(sentinel().as_bytes()) {
        viol(
            "C13 config-file-target-written-despite-option".into(),
            "the target named in the configuration file was written although --target names another file",
            Value::Null,
        );
    }
    if r.signal.is_some() || !matches!(r.code, Some(0) | Some(1)) {
        viol(format!("C13 cli-exit:{:?}/{:?}", r.code, r.signal), "oal-cli ended with a signal or an exit code other than 0/1", Value::Null);
    }
    let stderr = strip_ansi(&r.stderr);
    if stderr.contains("panicked") || stderr.contains("overflowed") {
        viol("C13 cli-panic".into(), "oal-cli panicked", Value::Null);
    }
    // in-process expectation through the library (same sources, in-memory loader)
    let lib = pipeline::run(src, None);
    st.inc(&format!("{phase}:{}", lib.class()));
    let after = snapshot(&target);
    if r.success() {
        st.inc("cli_success");
        match (&after, &lib) {
            (Some(a), Outcome::Doc { json: want, .. }) => match serde_yaml::from_slice::<Value>(&a.bytes) {
                Ok(got) => {
                    // compare what the program contributes (a base only adds the rest)
                    let part = |d: &Value| json!({"paths": d.get("paths"), "components": {"schemas": d.pointer("/components/schemas")}});
                    if let Some((ptr, _, _)) = first_diff(&canon(&part(&got)), &canon(&part(want))) {
                        viol("C13 target-differs-from-library-output".into(), "the written target is not the document the library builds", json!(ptr));
                    }
                    if a.bytes == sentinel().as_bytes() {
                        viol("C13 success-without-write".into(), "exit 0 but the target was not written", Value::Null);
                    }
                }
                Err(e) => viol("C13 target-unparseable".into(), "exit 0 but the target does not parse", json!(e.to_string())),
            },
            (None, _) => viol("C13 success-without-target".into(), "exit 0 but no target file", Value::Null),
            (_, other) => viol(
                format!("C13 cli-succeeds-library-fails:{}", other.class()),
                "oal-cli succeeded where the library pipeline does not produce a document",
                Value::Null,
            ),
        }
    } else {
        st.inc("cli_failure");
        match &after {
            Some(a) if a.bytes == before.bytes && a.ino == before.ino && a.mtime == before.mtime => st.inc("target_untouched_on_failure"),
            Some(a) => viol(
                "C13 target-touched-on-failure".into(),
                "a failed compilation modified the existing target",
                json!({"bytes_changed": a.bytes != before.bytes, "inode_changed": a.ino != before.ino, "mtime_changed": a.mtime != before.mtime}),
            ),
            None => viol("C13 target-removed-on-failure".into(), "a failed compilation removed the existing target", Value::Null),
        }
        if std::env::var("OALV_STRACE").is_ok() {
            // file-system call log (strace writes to stderr): no write access to the target on a failing run
            let touched: Vec<&str> = r
                .stderr
                .lines()
                .filter(|l| l.contains("out.yaml"))
                .filter(|l| {
                    (l.contains("openat(") && (l.contains("O_WRONLY") || l.contains("O_RDWR") || l.contains("O_TRUNC") || l.contains("O_CREAT")))
                        || l.contains("rename") || l.contains("unlink") || l.contains("truncate(") || l.contains("creat(")
                })
                .collect();
            st.inc("strace_logs_checked");
            if !touched.is_empty() {
                viol("C13 target-opened-for-writing-on-failure".into(), "the file-system log shows write access to the target although the run failed", json!(touched));
            }
        }
        if matches!(lib, Outcome::Doc { .. }) {
            viol("C13 cli-fails-library-succeeds".into(), "oal-cli failed where the library pipeline produces a document", Value::Null);
        }
        // a located report: names a module of the workspace and a position inside it
        let locs = report_locations(&r.stderr);
        let located = locs.iter().any(|(u, l, c)| {
            src.files.iter().any(|(n, t)| {
                let url = lsp_types::Url::from_file_path(dir.path.join(n)).map(|u| u.to_string()).unwrap_or_default();
                // the report's line numbering is the reporting library's: it also breaks lines at CR, VT, FF, NEL, LS and PS
                let breaks = t
                    .chars()
                    .filter(|c| matches!(c, '\n' | '\r' | '\u{b}' | '\u{c}' | '\u{85}' | '\u{2028}' | '\u{2029}'))
                    .count();
                url == *u && *l >= 1 && *l <= breaks + 1 && *c >= 1 && *c <= t.chars().count() + 1
            })
        });
        if located {
            st.inc("located_reports");
        } else if stderr.contains("cycle detected") {
            // an import cycle has no source position to point at (its span is the start of a module)
            st.inc("import_cycle_reported_without_position");
        } else if phase != "config" {
            viol(
                format!("C13 unlocated-diagnostic:{phase}"),
                "a source error was reported without a diagnostic located in the sources",
                json!({"locations": format!("{locs:?}")}),
            );
        }
    }
    // the playground entry point (single module) and the language server cycle
    if src.files.len() == 1 && !with_base {
        let w = guard(|| oal_wasm::compile(&src.files[0].1));
        crate::util::install_panic_hook();
        if let Ok(w) = w {
            st.inc("playground_compared");
            if w.error.is_empty() != r.success() {
                viol(
                    "C13 cli-and-playground-disagree".into(),
                    "oal-cli and the playground entry point disagree on success",
                    json!({"playground_error": crate::util::clip(&w.error, 300)}),
                );
            } else if r.success() {
                if let (Some(a), Ok(p)) = (&after, serde_yaml::from_str::<Value>(&w.api)) {
                    if let Ok(c) = serde_yaml::from_slice::<Value>(&a.bytes) {
                        if first_diff(&canon(&c), &canon(&p)).is_some() {
                            viol("C13 cli-and-playground-documents-differ".into(), "oal-cli and the playground emit different documents", Value::Null);
                        }
                    }
                }
            }
        }
    }
    // the real language server: diagnostics published for the refresh forced by a request
    {
        let conf = format!("[api]\nmain = \"{main}\"\ntarget = \"out-lsp.yaml\"\n");
        let _ = std::fs::write(dir.path.join("oal.toml"), conf);
        // half of the sessions have a second workspace folder, with a broken program of its own, before or after
        // the folder under test: each folder's verdict must reach the client
        let other = TempDir::new("c13other");
        let two = hash64(&(&src.files, 1u8)) % 2 == 0;
        let other_first = hash64(&(&src.files, 2u8)) % 2 == 0;
        let other_main = other.path.join("main.oal");
        let folders: Vec<std::path::PathBuf> = if two {
            std::fs::write(&other_main, "let broken = { 'a nowhere };\nres / on get -> <broken>;\n").unwrap();
            std::fs::write(other.path.join("oal.toml"), "[api]\nmain = \"main.oal\"\ntarget = \"out.yaml\"\n").unwrap();
            st.inc("real_lsp_sessions_with_two_folders");
            if other_first {
                vec![other.path.clone(), dir.path.clone()]
            } else {
                vec![dir.path.clone(), other.path.clone()]
            }
        } else {
            vec![dir.path.clone()]
        };
        match crate::drive::lsp::Lsp::start_folders(&dir.path, &folders, None) {
            Ok(mut lsp) => {
                let uri = crate::drive::lsp::file_uri(&dir.path.join(main));
                match lsp.position_request("textDocument/definition", &uri, 0, 0) {
                    Ok(_) => {
                        let other_uri = crate::drive::lsp::file_uri(&other_main);
                        let n: usize = lsp.diags.iter().filter(|(u, _)| **u != other_uri).map(|(_, d)| d.len()).sum();
                        if two && lsp.diags.get(&other_uri).map_or(0, |d| d.len()) == 0 {
                            viol(
                                "C13 real-lsp-diagnostics-disagree:no-diagnostic-for-the-other-folder".into(),
                                "oal-lsp publishes no diagnostic for the broken program of another workspace folder",
                                json!({"other_folder_first": other_first}),
                            );
                        }
                        st.inc("real_lsp_compared");
                        if (n > 0) == r.success() {
                            viol(
                                format!("C13 real-lsp-diagnostics-disagree:{}", if r.success() { "diagnostics-on-success" } else { "no-diagnostic-on-failure" }),
                                "oal-lsp publishes a diagnostic exactly when the CLI fails: violated",
                                json!({"diagnostics": n}),
                            );
                        }
                    }
                    Err(e) => viol("C13 real-lsp-failure".into(), "oal-lsp died or did not answer", json!(format!("{e:?}"))),
                }
                lsp.shutdown();
            }
            Err(e) => viol("C13 real-lsp-start".into(), "oal-lsp did not start", json!(format!("{e:?}"))),
        }
    }
    match guard(|| lsp_cycle_on_disk(&dir.path.join(main))) {
        Ok(Ok(n)) => {
            st.inc("lsp_compared");
            if (n > 0) == r.success() {
                viol(
                    format!("C13 lsp-diagnostics-disagree:{}", if r.success() { "diagnostics-on-success" } else { "no-diagnostic-on-failure" }),
                    "the language server publishes a diagnostic exactly when the CLI fails: violated",
                    json!({"diagnostics": n}),
                );
            }
        }
        Ok(Err(e)) => viol("C13 lsp-cycle-error".into(), "the language server cycle returned an error", json!(e)),
        Err(_) => st.inc("lsp_cycle_panicked_left_to_C04"),
    }
    out.truncate(4);
    out
}

impl Workspaces {
    fn case(&self, seed: u64, idx: u64, st: &mut Stats) -> (Sources, &'static str, bool, bool) {
        let mut rng = Rng::for_case(seed, "c13", idx);
        let with_base = rng.chance(1, 4);
        let use_conf = rng.chance(1, 3);
        match idx % 5 {
            0 => {
                // accepted
                let c = gen_wt_case(seed, "c13wt", idx, &Cfg::default(), st);
                (c.map(|c| c.sources).unwrap_or_else(|| Sources::single("res / on get -> {};")), "accepted", with_base, use_conf)
            }
            1 | 2 | 3 => {
                let c = gen_wt_case(seed, "c13wt", idx, &Cfg::default(), st);
                let mut s = c.map(|c| c.sources).unwrap_or_else(|| Sources::single("res / on get -> {};"));
                let what = inject(&mut s, &mut rng);
                (s, what, with_base, use_conf)
            }
            _ => {
                let c = explore_case(seed, "c13ex", idx);
                (c.sources, "explore", with_base, use_conf)
            }
        }
    }
}

impl Workload for Workspaces {
    fn len(&self) -> u64 {
        self.n
    }
    fn case_json(&self, seed: u64, idx: u64) -> Value {
        let mut st = Stats::new();
        let (s, phase, b, c) = self.case(seed, idx, &mut st);
        json!({"sources": s.to_json(), "phase": phase, "with_base": b, "use_conf": c})
    }
    fn run(&self, seed: u64, idx: u64, st: &mut Stats) -> Vec<Violation> {
        let (s, phase, b, c) = self.case(seed, idx, st);
        st.nontrivial(hash64(&(s.files.clone(), b, c)));
        st.sample(|| json!({"phase": phase, "with_base": b, "use_conf": c, "sources": s.to_json()}));
        // the explore family contains crashes that belong to other properties' open findings: only the
        // agreement / write-discipline part is judged, phase-specific expectations are off
        check_workspace(&s, phase, b, c, st)
    }
    fn run_json(&self, case: &Value, st: &mut Stats) -> Vec<Violation> {
        check_workspace(
            &Sources::from_json(&case["sources"]),
            "replay",
            case["with_base"].as_bool().unwrap_or(false),
            case["use_conf"].as_bool().unwrap_or(false),
            st,
        )
    }
    fn chunk(&self) -> u64 {
        10
    }
}

/// Configuration failures: missing main, unreadable/malformed base — failure exit, target untouched.
fn config_failures(st: &mut Stats) -> Vec<(String, Value)> {
    let mut out = Vec::new();
    let dir = TempDir::new("c13cfg");
    std::fs::write(dir.path.join("main.oal"), "res / on get -> {};\n").unwrap();
    std::fs::write(dir.path.join("out.yaml"), sentinel()).unwrap();
    std::fs::write(dir.path.join("bad.yaml"), "openapi: [unclosed\n").unwrap();
    let cases: Vec<(&str, CliResult)> = vec![
        ("missing-main", run_cli(&dir.path, "absent.oal", "out.yaml", None)),
        ("missing-base", run_cli(&dir.path, "main.oal", "out.yaml", Some("absent.yaml"))),
        ("malformed-base", run_cli(&dir.path, "main.oal", "out.yaml", Some("bad.yaml"))),
        ("missing-conf", run_cli_conf(&dir.path, "absent.toml")),
    ];
    let mut cases = cases;
    // a target that cannot take the document: a device that accepts the open and fails every write with ENOSPC
    // (the failure surfaces only when the bytes are really written), and a directory
    if std::path::Path::new("/dev/full").exists() {
        cases.push(("target-device-full", run_cli(&dir.path, "main.oal", "/dev/full", None)));
        std::fs::write(
            dir.path.join("big.oal"),
            (0..400).map(|i| format!("res /r{i} on get -> <{{ 'p{i} num }}>;\n")).collect::<String>(),
        )
        .unwrap();
        cases.push(("target-device-full-large-document", run_cli(&dir.path, "big.oal", "/dev/full", None)));
    }
    std::fs::create_dir_all(dir.path.join("adir")).unwrap();
    cases.push(("target-is-a-directory", run_cli(&dir.path, "main.oal", "adir", None)));
    for (name, r) in cases {
        st.inc("config_failure_cases");
        let bytes = std::fs::read(dir.path.join("out.yaml")).unwrap_or_default();
        if r.success() || r.signal.is_some() || !matches!(r.code, Some(1) | Some(2)) {
            out.push((format!("C13 config-failure-not-reported:{name}"), json!({"code": r.code, "signal": r.signal})));
        }
        if bytes != sentinel().as_bytes() {
            out.push((format!("C13 target-touched-on-config-failure:{name}"), Value::Null));
        }
    }
    out
}

pub fn run(ctx: &Ctx) -> i32 {
    let mut acc = Acc::new(ctx);
    let wl = Workspaces {
        n: if ctx.quick() { 1500 } else { 12_000 },
    };
    acc.pool(&wl, "c13", false);
    // language-server sessions (edit histories of C15's workload): every error the library locates must be
    // published for the document of its module with exactly the range of its span in the client's text
    let hs = super::c15::Histories {
        n: if ctx.quick() { 400 } else { 8000 },
        max_steps: if ctx.quick() { 25 } else { 60 },
        located_only: Some("C13"),
    };
    acc.pool(&hs, "c15loc-c13", true);
    let mut st = Stats::new();
    for (sig, detail) in config_failures(&mut st) {
        acc.violation(&sig, "a configuration failure is not handled as the property demands", &json!({"family": "config"}), &detail, "c13config");
    }
    acc.stats.merge(&st);
    // Canary: the report parser finds the location in an ariadne header line.
    let locs = report_locations("Error: x\n   \u{1b}[38;5;246m╭─[\u{1b}[0m file:///tmp/a b/main.oal:2:14 \u{1b}[38;5;246m]\u{1b}[0m\n");
    let canary = locs == vec![("file:///tmp/a b/main.oal".to_owned(), 2, 14)];
    acc.observed.insert("canary_report_location_parser".into(), json!(canary));
    if !canary {
        acc.inconclusive.push("report parser canary failed".into());
    }
    if acc.stats.get("cli_failure") == 0 || acc.stats.get("cli_success") == 0 {
        acc.inconclusive.push("did not observe both successful and failing CLI runs".into());
    }
    if !ctx.quick() {
        acc.asan(&["c13"]);
        // strace monitor: on a failing run nothing may open the target for writing, rename or unlink it
        {
            let _g = crate::drive::sanitize::BinaryOverride::wrapper(
                "strace -f -qq -e trace=openat,creat,rename,renameat,renameat2,unlink,unlinkat,truncate,ftruncate",
            );
            std::env::set_var("OALV_STRACE", "1");
            if let Some(wl) = super::workload("c13-strace", &ctx.tier) {
                let r = acc.pool(wl.as_ref(), "c13-strace", false);
                acc.observed.insert("monitor:strace".into(), json!({"workspaces": r.evaluations, "violations": r.violations.len()}));
            }
            std::env::remove_var("OALV_STRACE");
        }
    }
    acc.finish(
        "exploration",
        "workspaces on disk with a pre-existing sentinel target: accepted G-wt programs (1/5), the same with one injected error of a chosen phase (lexical, syntax, missing import, import cycle, resolution, duplicate, type, cycle, evaluation: invalid status / malformed annotation YAML) in the main or an imported module at a random statement position (3/5), exploration cases (1/5); options vs --conf file, with/without base; per workspace: real oal-cli exit status, stderr report location, target bytes/inode/mtime, agreement with the library pipeline, the playground entry point (single module) and the language server load/eval/diagnostics cycle; plus four configuration failures; options given together with a configuration file that names another target and a bogus main (options take precedence); half of the language-server sessions have a second workspace folder with a broken program of its own; plus recorded language-server sessions over C15's histories (no fresh server): the error the library pipeline locates in the current texts must be among the diagnostics published for the document of its module, with exactly the range of its span in the client's text; non-trivial = every workspace; distinct by (sources, configuration)",
        if ctx.quick() { 200 } else { 2000 },
        false,
        &["the located-report check parses ariadne's header line; configuration failures need no location"],
        json!({}),
    )
}
