//! C15: language-server answers depend only on current texts, not on edit history.
//! Two real oal-lsp processes (history vs fresh) compared offline from what they published and answered.

use super::{Acc, Ctx};
use crate::drive::cli::TempDir;
use crate::drive::lsp::{file_uri, ClientDoc, Lsp, LspError};
use crate::pool::{Violation, Workload};
use crate::util::{hash64, Rng, Stats};
use serde_json::{json, Value};
use std::collections::{BTreeMap, BTreeSet};

pub struct Histories {
    pub n: u64,
    pub max_steps: usize,
    /// None: the full C15 comparison with a fresh server. Some(property): only the server-independent oracle
    /// (every located error is published for the module it lives in, with the range of its span), run on behalf
    /// of that property's check.
    pub located_only: Option<&'static str>,
}

/// The workspace folder is `<scratch>/ws`; the last module lives outside of it, next to the folder.
const FILES: [&str; 4] = ["main.oal", "a.oal", "lib/b.oal", "../c.oal"];

/// Path of a workspace file (names starting with `../` are relative to the folder's parent).
fn path_of(ws: &std::path::Path, name: &str) -> std::path::PathBuf {
    match name.strip_prefix("../") {
        Some(rest) => ws.parent().unwrap_or(ws).join(rest),
        None => ws.join(name),
    }
}

/// Text variants per file: valid ones and ones with an error at some phase; multi-byte and CRLF content.
fn variants(file: usize) -> Vec<&'static str> {
    match file {
        0 => vec![
            "use \"a.oal\" as a;\nuse \"lib/b.oal\";\n// main — café 😉\nlet m = { 'x a.v, 'y w };\nres / on get -> m;\n",
            "use \"lib/b.oal\";\nlet m = { 'y w };\nres / on get -> m;\n",
            "use \"a.oal\" as a;\r\nlet m = { 'x a.v };\r\nres /m on get -> m;\r\n",
            "let m = {};\nres / on get -> m;\n",
            "\u{feff}let m = { 'x nope };\nres / on get -> m;\n",
            "use \"a.oal\" as a;\nlet m = { 'x a.v } | num;\nres / on get -> m;\n",
            "use \"a.oal\" as a;\nlet m = { 'x a.nope };\nres / on get -> m;\n",
            "use \"a.oal\" as a;\nlet m = { 'x a.v ;\nres / on get -> m;\n",
            "use \"a.oal\" as a;\nuse \"../c.oal\" as c;\nlet m = { 'x a.v, 'z c.u };\nres / on get -> m `description: \"é€😉\"`;\n",
            "let m = { 'x nope };\nres / on get -> m;\n",
            // a recursion that passes through a function of the imported module
            "use \"a.oal\" as a;\nlet page = a.wrap self;\nlet self = /pages on get -> page;\nres self;\n",
        ],
        1 => vec![
            "let v = { 'name str, 'n int };\n",
            "# description: \"schéma 😉\"\nlet v = { 'name str };\nlet extra = [ v ];\n",
            "let v = { 'name str } | num;\n",
            "let v = { 'name § };\n",
            "let v = { 'name nope };\n",
            "let v = { 'name str\n",
            "let v = { 'name str };\r\nlet v = num;\r\n",
            "use \"lib/b.oal\";\nlet v = { 'name w };\n",
            // an import that cannot be found, in a module that is not the main one, behind multi-byte text
            "// é😉 préfixe — €\nuse \"lib/nowhere.oal\";\nlet v = { 'name str };\n",
            "let v = { 'name str, 'n int };\nlet wrap x = { 'self x, 'v v };\n",
            "let v = { 'name str };\nlet wrap x = <status=200, { 'self x }>;\n",
        ],
        2 => vec![
            "let w = num;\n",
            "let w = num `minimum: 0`;\n/* 😉😉 */\n",
            "let w = <> ~ num;\n",
            "let w = ;\n",
            "\u{feff}let w = num;\n",
            // imports its importer: a cycle whenever a.oal imports lib/b.oal
            "/* 😉 */ use \"../a.oal\" as back;\nlet w = num;\n",
        ],
        _ => vec![
            "let u = str;\n",
            "let u = { 'q str };\nlet @comp = { 'k u };\n",
            "let u = 12345678901234567890123;\n",
            "let u = rec x { 'next x };\n",
        ],
    }
}

/// marks a file that is neither open nor on disk
const ABSENT: &str = "\u{0}absent";

const SNIPPETS: [&str; 18] = [
    "", " ", "\n", "\r\n", "é", "😉", "€", "x", ";", "§", "let zz = {};\n", "'p num", "// c\n", "/* c */", "a.", "\"s\"", "`t: 1`", "# a: 1\n",
];

#[derive(Clone, Debug)]
enum Step {
    Open(usize, String),
    Change(usize, Vec<(Option<(usize, usize)>, String)>),
    Close(usize),
    Request(usize, &'static str, usize),
    /// a file that is not open disappears from the disk; the server learns nothing of it until the next
    /// notification, here a full-text didChange of the open document `.1` that re-sends its current text
    DeleteOnDisk(usize, usize),
    /// the second workspace folder (the parent directory, whose program is `c.oal`) is removed from the running server
    RemoveOuterFolder,
    Checkpoint,
}

struct Client {
    docs: Vec<Option<ClientDoc>>,
    versions: Vec<i64>,
}

/// Import-free variants of the main module (indices into `variants(0)`): with one of them on disk the server holds a
/// single document.
const SOLO_MAIN: [usize; 3] = [3, 4, 9];

fn gen_history(rng: &mut Rng, max_steps: usize) -> (Vec<usize>, Vec<Step>) {
    let family = rng.below(8);
    if family == 1 {
        // the library is edited while the main module stays what it is on disk, never opened: whatever the server keeps
        // of a module it did not see change (text, tree, what the compiler wrote into the tree) meets new imports
        const IMPORTING_MAIN: [usize; 6] = [0, 2, 5, 6, 8, 10];
        let lib = variants(1);
        let disk = vec![*rng.pick(&IMPORTING_MAIN), rng.below(lib.len()), 0, 0];
        let mut steps = Vec::new();
        if rng.chance(2, 3) {
            steps.push(Step::Request(0, "textDocument/definition", rng.below(60)));
        }
        if rng.chance(1, 3) {
            // ... or the other way round: the main module goes from one importing variant to another (a document gains
            // or loses its references to the library) while the library stays what it is, with a look at every step
            let mut first = true;
            for _ in 0..rng.range(2, 4) {
                let t = variants(0)[*rng.pick(&IMPORTING_MAIN)].to_owned();
                if first {
                    steps.push(Step::Open(0, t));
                    first = false;
                } else {
                    steps.push(Step::Change(0, vec![(None, t)]));
                }
                steps.push(Step::Checkpoint);
            }
            return (disk, steps);
        }
        let mut is_open = false;
        for _ in 0..rng.range(2, 5) {
            let t = (*rng.pick(&lib)).to_owned();
            if is_open {
                steps.push(Step::Change(1, vec![(None, t)]));
            } else {
                steps.push(Step::Open(1, t));
                is_open = true;
            }
            if rng.chance(2, 3) {
                let m = *rng.pick(&["textDocument/definition", "textDocument/references", "textDocument/prepareRename"]);
                steps.push(Step::Request(rng.below(2), m, rng.below(120)));
            }
            if rng.chance(1, 2) {
                steps.push(Step::Checkpoint);
            }
            if is_open && rng.chance(1, 4) {
                steps.push(Step::Close(1));
                is_open = false;
            }
        }
        steps.push(Step::Checkpoint);
        return (disk, steps);
    }
    if family == 2 {
        // two workspace folders: `ws` and the directory next to it that holds `c.oal` (a program of its own, and a module
        // of the program of `ws`). `c.oal` is open with unsaved text when the outer folder is taken away; the document
        // stays open and stays a module of the program of `ws`
        let outer = variants(3);
        let disk = vec![8, 0, 0, rng.below(outer.len())];
        let mut steps = vec![Step::Open(3, (*rng.pick(&outer)).to_owned())];
        if rng.chance(1, 2) {
            steps.push(Step::Change(3, vec![(Some((0, 0)), (*rng.pick(&SNIPPETS)).to_owned())]));
        }
        if rng.chance(1, 2) {
            steps.push(Step::Checkpoint);
        }
        steps.push(Step::RemoveOuterFolder);
        steps.push(Step::Checkpoint);
        steps.push(Step::Change(3, vec![(Some((0, 0)), (*rng.pick(&SNIPPETS)).to_owned())]));
        if rng.chance(1, 2) {
            steps.push(Step::Change(3, vec![(None, (*rng.pick(&outer)).to_owned())]));
        }
        steps.push(Step::Checkpoint);
        return (disk, steps);
    }
    if family == 0 {
        // a single-module program: the only document the server holds is opened with unsaved text and closed again,
        // several times, with and without requests in between
        let disk = vec![3, 0, 0, 0];
        let mut steps = Vec::new();
        for _ in 0..rng.range(1, 3) {
            let t = variants(0)[*rng.pick(&SOLO_MAIN)];
            steps.push(Step::Open(0, t.to_owned()));
            if rng.chance(1, 2) {
                steps.push(Step::Request(0, "textDocument/definition", rng.below(40)));
            }
            if rng.chance(1, 2) {
                let t2 = variants(0)[*rng.pick(&SOLO_MAIN)];
                steps.push(Step::Change(0, vec![(None, t2.to_owned())]));
            }
            steps.push(Step::Close(0));
            if rng.chance(2, 3) {
                steps.push(Step::Checkpoint);
            }
        }
        steps.push(Step::Checkpoint);
        return (disk, steps);
    }
    // disk variant per file
    let disk: Vec<usize> = (0..4).map(|f| if rng.chance(3, 4) { 0 } else { rng.below(variants(f).len()) }).collect();
    let mut open: Vec<Option<ClientDoc>> = vec![None; 4];
    let mut deleted = [false; 4];
    let mut steps = Vec::new();
    let n = rng.range(4, max_steps);
    let mut burst = 0;
    for _ in 0..n {
        let f = rng.below(4);
        let k = rng.below(100);
        let in_burst = burst > 0;
        if in_burst {
            burst -= 1;
        } else if rng.chance(1, 5) {
            burst = rng.range(2, 5);
        }
        match (&open[f], k) {
            (None, 0..=59) if !deleted[f] => {
                let text = if rng.chance(1, 2) { variants(f)[disk[f]] } else { *rng.pick(&variants(f)) };
                open[f] = Some(ClientDoc::new(text));
                steps.push(Step::Open(f, text.to_owned()));
            }
            (Some(_), 0..=54) => {
                let mut changes = Vec::new();
                let mut doc = open[f].clone().unwrap();
                for _ in 0..rng.range(1, 3) {
                    // a text that applies or declares the imported function `wrap` is only ever replaced as a whole: a
                    // ranged edit of it can leave the parameter of `wrap` under-constrained in its module or hand it an
                    // ill-kinded argument, which is the trigger shape of the open finding c01-cross-module-instantiation
                    // (any cast may fail; in the lenient language server the failing cast ends the process)
                    let whole_only = doc.text().contains("wrap");
                    if whole_only || rng.chance(1, 4) {
                        let t = (*rng.pick(&variants(f))).to_owned();
                        doc = ClientDoc::new(&t);
                        changes.push((None, t));
                    } else if rng.chance(1, 4) && same_width_swap(&mut doc, rng, &mut changes) {
                        // done: a replacement of equal UTF-8 length that changes the line / UTF-16 layout
                    } else {
                        let b = doc.boundaries();
                        let mut s = *rng.pick(&b);
                        let mut e = if rng.chance(1, 3) { s } else { *rng.pick(&b) };
                        if rng.chance(1, 6) {
                            s = doc.units.len();
                            e = s;
                        } else if rng.chance(1, 5) {
                            // a range that holds a character outside the basic plane (two UTF-16 units, one character,
                            // four bytes): lengths in units, characters and bytes all differ
                            if let Some(u) = (0..doc.units.len()).find(|u| (0xD800..0xDC00).contains(&doc.units[*u])) {
                                s = *b.iter().filter(|x| **x <= u).last().unwrap_or(&u);
                                e = (u + 2 + rng.below(3)).min(doc.units.len());
                                e = *b.iter().filter(|x| **x <= e).last().unwrap_or(&e);
                            }
                        }
                        if s > e {
                            std::mem::swap(&mut s, &mut e);
                        }
                        // bound the size of deletions so that documents stay interesting
                        if e - s > 12 && rng.chance(3, 4) {
                            e = *b.iter().filter(|x| **x >= s && **x <= s + 12).last().unwrap_or(&s);
                        }
                        let t = (*rng.pick(&SNIPPETS)).to_owned();
                        changes.push((Some((s, e)), t.clone()));
                        doc.replace(s, e, &t);
                    }
                }
                open[f] = Some(doc);
                steps.push(Step::Change(f, changes));
            }
            (Some(_), 55..=69) => {
                open[f] = None;
                steps.push(Step::Close(f));
            }
            (None, 60..=64) if f > 0 && !deleted[f] && open.iter().any(|d| d.is_some()) => {
                deleted[f] = true;
                let g = (0..4).find(|g| open[*g].is_some()).unwrap();
                steps.push(Step::DeleteOnDisk(f, g));
            }
            _ => {
                if !in_burst {
                    let m = *rng.pick(&["textDocument/definition", "textDocument/references", "textDocument/prepareRename"]);
                    steps.push(Step::Request(f, m, rng.below(200)));
                }
            }
        }
        if !in_burst && rng.chance(1, 12) {
            steps.push(Step::Checkpoint);
        }
    }
    steps.push(Step::Checkpoint);
    (disk, steps)
}

/// Replaces one character by text of the same UTF-8 length and a different line or UTF-16 layout (blank <-> line
/// break, a 4-byte character <-> four ASCII letters, ...): byte offsets behind it stay, positions move.
fn same_width_swap(doc: &mut ClientDoc, rng: &mut Rng, changes: &mut Vec<(Option<(usize, usize)>, String)>) -> bool {
    const SWAPS: [(&str, &str); 8] = [(" ", "\n"), ("\n", " "), ("😉", "abcd"), ("é", "ee"), ("€", "eur"), ("ee", "é"), ("  ", "é"), ("\t", "\n")];
    let text = doc.text();
    let mut sites: Vec<(usize, usize, &str)> = Vec::new();
    for (from, to) in SWAPS {
        let mut at = 0;
        while let Some(i) = text[at..].find(from) {
            let b = at + i;
            // not a line break that is part of CRLF, not a blank inside a string or annotation (keeps most texts parsing alike)
            let units = text[..b].encode_utf16().count();
            let crlf = from == "\n" && b > 0 && text.as_bytes()[b - 1] == b'\r';
            if !crlf {
                sites.push((units, units + from.encode_utf16().count(), to));
            }
            at = b + from.len();
        }
    }
    if sites.is_empty() {
        return false;
    }
    let (s, e, to) = *rng.pick(&sites);
    changes.push((Some((s, e)), to.to_owned()));
    doc.replace(s, e, to);
    true
}

type Obs = (BTreeMap<String, BTreeSet<String>>, Vec<String>);

/// Probes a server: answers to definition / references / prepareRename / rename at fixed positions of
/// every workspace file, then the last published diagnostics per URI.
fn observe(lsp: &mut Lsp, dir: &std::path::Path, texts: &[String]) -> Result<(Obs, BTreeMap<String, Vec<Value>>), LspError> {
    // one request forces the refresh that the preceding notifications made due; what has been published when its
    // response arrives is the server's view of the current texts (a later request must not be needed to get there)
    let first = (0..FILES.len()).find(|f| texts[*f] != ABSENT).unwrap_or(0);
    lsp.position_request("textDocument/definition", &file_uri(&path_of(dir, FILES[first])), 0, 0)?;
    let published = lsp.diags.clone();
    let mut answers = Vec::new();
    for (f, name) in FILES.iter().enumerate() {
        if texts[f] == ABSENT {
            continue;
        }
        let uri = file_uri(&path_of(dir, name));
        let doc = ClientDoc::new(&texts[f]);
        // identifier starts and a few fixed offsets
        let mut offs: Vec<usize> = Vec::new();
        let chars: Vec<char> = texts[f].chars().collect();
        let mut unit = 0;
        for (i, c) in chars.iter().enumerate() {
            let starts_word = (c.is_ascii_alphabetic() || *c == '@' || *c == '_') && (i == 0 || !(chars[i - 1].is_ascii_alphanumeric() || chars[i - 1] == '_' || chars[i - 1] == '@' || chars[i - 1] == '\''));
            if starts_word {
                offs.push(unit);
            }
            unit += c.len_utf16();
        }
        offs.truncate(14);
        offs.push(0);
        offs.push(doc.units.len());
        for o in offs {
            let p = doc.position_of(o);
            for m in ["textDocument/definition", "textDocument/references", "textDocument/prepareRename"] {
                let r = lsp.position_request(m, &uri, p[0], p[1])?;
                let mut norm = normalise(&r);
                norm.sort();
                answers.push(format!("{name}@{}:{} {} -> {}", p[0], p[1], m.rsplit('/').next().unwrap(), norm.join(" ")));
                if m.ends_with("prepareRename") && !r.is_null() {
                    let rr = lsp.rename(&uri, p[0], p[1], "zrenamed")?;
                    let mut n2 = normalise(&rr);
                    n2.sort();
                    answers.push(format!("{name}@{}:{} rename -> {}", p[0], p[1], n2.join(" ")));
                }
            }
        }
    }
    let mut diags: BTreeMap<String, BTreeSet<String>> = BTreeMap::new();
    for (uri, ds) in &published {
        let set: BTreeSet<String> = ds.iter().map(|d| format!("{} {}", d["range"], d["message"])).collect();
        if !set.is_empty() {
            diags.insert(uri.clone(), set);
        }
    }
    Ok(((diags, answers), published))
}

/// Flattens a response into a sorted list of strings (locations / edits), order-insensitive.
fn normalise(v: &Value) -> Vec<String> {
    match v {
        Value::Null => vec![],
        Value::Array(a) => a.iter().map(|x| x.to_string()).collect(),
        Value::Object(m) => {
            if let Some(ch) = m.get("changes").and_then(Value::as_object) {
                let mut out = Vec::new();
                for (u, es) in ch {
                    for e in es.as_array().cloned().unwrap_or_default() {
                        out.push(format!("{u} {e}"));
                    }
                }
                out
            } else {
                vec![v.to_string()]
            }
        }
        other => vec![other.to_string()],
    }
}

fn write_disk(dir: &std::path::Path, disk: &[usize]) {
    std::fs::create_dir_all(dir.join("lib")).unwrap();
    for (f, name) in FILES.iter().enumerate() {
        std::fs::write(path_of(dir, name), variants(f)[disk[f]]).unwrap();
    }
    std::fs::write(dir.join("oal.toml"), "[api]\nmain = \"main.oal\"\ntarget = \"out.yaml\"\n").unwrap();
}

fn run_history(disk: &[usize], steps: &[Step], located_only: Option<&'static str>, st: &mut Stats) -> Vec<Violation> {
    let prop = located_only.unwrap_or("C15");
    let dir = TempDir::new("c15");
    let ws = dir.path.join("ws");
    std::fs::create_dir_all(&ws).unwrap();
    write_disk(&ws, disk);
    let uris: Vec<String> = FILES.iter().map(|n| file_uri(&path_of(&ws, n))).collect();
    let mut client = Client {
        docs: vec![None; 4],
        versions: vec![0; 4],
    };
    let mut on_disk = [true; 4];
    let fail = |e: LspError, step: usize, what: &str| -> Vec<Violation> {
        let kind = match &e {
            LspError::Timeout => "no-answer",
            LspError::Died(_) => "died",
            LspError::ErrorResponse(_) => "error-response",
        };
        vec![Violation::new(
            "the language server died or stopped answering during an edit history",
            json!({"signature": format!("{prop} server-{kind} on {what}"), "step": step, "error": crate::util::clip(&format!("{e:?}"), 600)}),
        )]
    };
    // histories that remove the outer folder start with two folders: `ws` and its parent directory
    let mut folders: Vec<std::path::PathBuf> = vec![ws.clone()];
    if steps.iter().any(|s| matches!(s, Step::RemoveOuterFolder)) {
        let _ = std::fs::write(dir.path.join("oal.toml"), "[api]\nmain = \"c.oal\"\ntarget = \"out-outer.yaml\"\n");
        folders.push(dir.path.clone());
        st.inc("histories_with_two_workspace_folders");
    }
    let mut lsp = match Lsp::start_folders(&ws, &folders, None) {
        Ok(l) => l,
        Err(e) => return fail(e, 0, "start"),
    };
    for (i, s) in steps.iter().enumerate() {
        st.inc("steps");
        let r = match s {
            Step::Open(f, t) => {
                client.docs[*f] = Some(ClientDoc::new(t));
                st.inc("step:open");
                // in every other history the client numbers the versions of a document from the start again when it
                // opens it again (didOpen carries version 0), as editors do; in the others it keeps counting
                if steps.len() % 2 == 0 && client.versions[*f] > 0 {
                    client.versions[*f] = 0;
                    st.inc("reopened_with_versions_starting_again");
                }
                lsp.did_open(&uris[*f], t)
            }
            Step::Close(f) => {
                client.docs[*f] = None;
                st.inc("step:close");
                lsp.did_close(&uris[*f])
            }
            Step::Change(f, changes) => {
                st.inc("step:change");
                let doc = client.docs[*f].as_mut().unwrap();
                let mut wire = Vec::new();
                let mut lengths = Vec::new();
                for (range, text) in changes {
                    match range {
                        None => {
                            *doc = ClientDoc::new(text);
                            wire.push((None, text.clone()));
                            lengths.push(None);
                            st.inc("changes:full");
                        }
                        Some((s, e)) => {
                            let (ps, pe) = (doc.position_of(*s), doc.position_of(*e));
                            doc.replace(*s, *e, text);
                            wire.push((Some([ps, pe]), text.clone()));
                            // every other ranged change also carries the replaced length in UTF-16 units
                            if (s + e + i) % 2 == 0 {
                                lengths.push(Some((e - s) as u32));
                                st.inc("changes:with-rangeLength");
                            } else {
                                lengths.push(None);
                            }
                            st.inc("changes:incremental");
                        }
                    }
                }
                client.versions[*f] += 1;
                lsp.did_change_with_lengths(&uris[*f], client.versions[*f], &wire, &lengths)
            }
            Step::Request(f, m, at) => {
                st.inc("step:request");
                let text = match &client.docs[*f] {
                    Some(d) => d.clone(),
                    None => ClientDoc::new(variants(*f)[disk[*f]]),
                };
                if client.docs[*f].is_none() && !on_disk[*f] {
                    continue;
                }
                let b = text.boundaries();
                let o = b[*at % b.len()];
                let p = text.position_of(o);
                lsp.position_request(m, &uris[*f], p[0], p[1]).map(|_| ())
            }
            Step::RemoveOuterFolder => {
                st.inc("step:remove-folder");
                folders.truncate(1);
                lsp.notify(
                    "workspace/didChangeWorkspaceFolders",
                    json!({"event": {"added": [], "removed": [{"uri": file_uri(&dir.path), "name": "outer"}]}}),
                )
            }
            Step::DeleteOnDisk(f, g) => {
                st.inc("step:delete-on-disk");
                let _ = std::fs::remove_file(path_of(&ws, FILES[*f]));
                on_disk[*f] = false;
                let text = client.docs[*g].as_ref().map(|d| d.text()).unwrap_or_default();
                client.versions[*g] += 1;
                lsp.did_change(&uris[*g], client.versions[*g], &[(None, text)])
            }
            Step::Checkpoint => {
                st.inc("step:checkpoint");
                let texts: Vec<String> = (0..4)
                    .map(|f| match &client.docs[f] {
                        Some(d) => d.text(),
                        None if on_disk[f] => variants(f)[disk[f]].to_owned(),
                        None => ABSENT.to_owned(),
                    })
                    .collect();
                let (h, h_published) = match observe(&mut lsp, &ws, &texts) {
                    Ok(o) => o,
                    Err(e) => return fail(e, i, "probe"),
                };
                // independent of any server: the error the library locates in the current texts must have been
                // published for the document it lives in, with the range of its span in the client's text
                let src = crate::drive::pipeline::Sources {
                    files: (0..4).filter(|f| texts[*f] != ABSENT).map(|f| (FILES[f].to_owned(), texts[f].clone())).collect(),
                };
                // import strings with URL syntax in them (`#`, `?`, `%`, blanks, line breaks) resolve differently on a
                // file system (fragment and query are ignored) and in the in-memory loader: not judged
                // (`use "lib";`, which names a directory of the workspace, is judged: a directory is no more a module
                // than a missing file is, on the file system as in the in-memory loader)
                let weird_import = texts.iter().any(|t| {
                    t.match_indices("use").any(|(i, _)| {
                        let rest = t[i + 3..].trim_start();
                        rest.starts_with('"')
                            && rest[1..]
                                .split('"')
                                .next()
                                .map_or(true, |p| !p.chars().all(|c| c.is_ascii_alphanumeric() || "._/-".contains(c)))
                    })
                });
                if weird_import {
                    st.inc("located_oracle_skipped_import_string_with_url_syntax");
                } else if let Some(exp) = super::common::error_location(&src) {
                    st.inc("located_errors_checked");
                    let uri_of = |file: &str| file_uri(&path_of(&ws, file));
                    let text_of = |file: &str| FILES.iter().position(|n| *n == file).map(|f| texts[f].clone());
                    if let Some((class, detail)) = super::common::check_error_published(&h_published, &uri_of, &text_of, &exp) {
                        return vec![Violation::new(
                            "the diagnostics published for the current texts do not locate the error where the compiler does",
                            json!({"signature": format!("{prop} {class}"), "step": i, "detail": detail}),
                        )];
                    }
                }
                if located_only.is_some() {
                    continue;
                }
                // fresh server handed the client's final texts of the still-open documents
                let mut fresh = match Lsp::start_folders(&ws, &folders, None) {
                    Ok(l) => l,
                    Err(e) => return fail(e, i, "fresh start"),
                };
                for f in 0..4 {
                    if let Some(d) = &client.docs[f] {
                        if let Err(e) = fresh.did_open(&uris[f], &d.text()) {
                            return fail(e, i, "fresh open");
                        }
                    }
                }
                let (fr, _) = match observe(&mut fresh, &ws, &texts) {
                    Ok(o) => o,
                    Err(e) => return fail(e, i, "fresh probe"),
                };
                fresh.shutdown();
                st.inc("checkpoints_compared");
                st.add("probe_answers_compared", h.1.len() as u64);
                if h.0 != fr.0 {
                    let uri = h.0.keys().chain(fr.0.keys()).find(|u| h.0.get(*u) != fr.0.get(*u)).cloned().unwrap_or_default();
                    let file = uri.rsplit('/').next().unwrap_or("").to_owned();
                    let kind = if h.0.get(&uri).map_or(0, |s| s.len()) > fr.0.get(&uri).map_or(0, |s| s.len()) {
                        "stale-or-extra-diagnostics"
                    } else {
                        "missing-diagnostics"
                    };
                    return vec![Violation::new(
                        "published diagnostics differ from those of a fresh server handed the final texts",
                        json!({"signature": format!("C15 {kind}"), "file": file, "step": i,
                               "history_server": format!("{:?}", h.0.get(&uri)), "fresh_server": format!("{:?}", fr.0.get(&uri)),
                               "open_documents": (0..4).filter(|f| client.docs[*f].is_some()).map(|f| FILES[f]).collect::<Vec<_>>()}),
                    )];
                }
                if h.1 != fr.1 {
                    let k = h.1.iter().zip(fr.1.iter()).position(|(a, b)| a != b).unwrap_or(0);
                    return vec![Violation::new(
                        "request answers differ from those of a fresh server handed the final texts",
                        json!({"signature": "C15 answers-differ", "step": i, "history_server": h.1.get(k), "fresh_server": fr.1.get(k)}),
                    )];
                }
                Ok(())
            }
        };
        if let Err(e) = r {
            return fail(e, i, "notification/request");
        }
        if !lsp.alive() {
            return fail(LspError::Died(lsp.stderr_tail()), i, "liveness poll");
        }
    }
    st.add("jsonrpc_messages", (lsp.messages_sent + lsp.messages_received) as u64);
    lsp.shutdown();
    vec![]
}

impl Workload for Histories {
    fn len(&self) -> u64 {
        self.n
    }
    fn case_json(&self, seed: u64, idx: u64) -> Value {
        let mut rng = Rng::for_case(seed, "c15", idx);
        let (disk, steps) = gen_history(&mut rng, self.max_steps);
        json!({"seed": seed, "index": idx, "max_steps": self.max_steps, "disk_variants": disk, "steps": steps.iter().map(|s| format!("{s:?}")).collect::<Vec<_>>()})
    }
    fn run(&self, seed: u64, idx: u64, st: &mut Stats) -> Vec<Violation> {
        let mut rng = Rng::for_case(seed, "c15", idx);
        let (disk, steps) = gen_history(&mut rng, self.max_steps);
        st.nontrivial(hash64(&format!("{disk:?}{steps:?}")));
        st.sample(|| json!({"disk_variants": disk, "steps": steps.iter().map(|s| crate::util::clip(&format!("{s:?}"), 120)).collect::<Vec<_>>()}));
        run_history(&disk, &steps, self.located_only, st)
    }
    fn run_json(&self, case: &Value, st: &mut Stats) -> Vec<Violation> {
        let seed = case["seed"].as_u64().unwrap_or(1);
        let idx = case["index"].as_u64().unwrap_or(0);
        let ms = case["max_steps"].as_u64().unwrap_or(25) as usize;
        let mut rng = Rng::for_case(seed, "c15", idx);
        let (disk, steps) = gen_history(&mut rng, ms);
        run_history(&disk, &steps, self.located_only, st)
    }
    fn chunk(&self) -> u64 {
        2
    }
    fn case_timeout_s(&self) -> u64 {
        300
    }
}

pub fn run(ctx: &Ctx) -> i32 {
    let mut acc = Acc::new(ctx);
    let wl = Histories {
        n: if ctx.quick() { 1000 } else { 20_000 },
        max_steps: if ctx.quick() { 25 } else { 60 },
        located_only: None,
    };
    acc.pool(&wl, "c15", true);
    if acc.stats.get("checkpoints_compared") == 0 {
        acc.inconclusive.push("no checkpoint was compared".into());
    }
    if !ctx.quick() {
        acc.asan(&["c15"]);
    }
    acc.finish(
        "exploration",
        "protocol-valid histories over a 4-file workspace (main importing two modules, one unrelated file; text variants valid and with lexical/syntax/type/resolution errors, multi-byte characters, CRLF): didOpen with disk or unsaved text, didChange with 1-3 full or incremental changes at arbitrary valid UTF-16 ranges (end-of-file insertions, multi-byte and CRLF snippets), didClose, requests, bursts of notifications without requests; at checkpoints the real server's last published diagnostics per URI and its answers to definition/references/prepareRename/rename probes at identifier starts of every file are compared with a fresh server that is only handed didOpen with the client's final texts (client texts from an independent UTF-16 model); independently of any server, the error the library pipeline locates in the current texts must be among the diagnostics published for the document of its module, with exactly the range of its span in the client's text; edits include replacements of equal UTF-8 length that move lines / UTF-16 columns, texts with a leading U+FEFF, deletion of a closed file; liveness after every message; synchronisation by request/response order, no timing; non-trivial = every history; distinct by content",
        if ctx.quick() { 50 } else { 1000 },
        false,
        &["files on disk do not change during a history, except that a file which is not open may be deleted (the server is notified of something right after)", "the 1 s idle refresh only changes how often the server refreshes"],
        json!({}),
    )
}
