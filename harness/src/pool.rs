//! Child-process pool with crash attribution (DESIGN.md 3.2).
//!
//! The coordinator never runs a case itself. It re-executes this binary as N workers; each worker
//! receives chunk commands on stdin (`RUN lo hi slow`) and answers on stdout. In fast mode only the
//! aggregate comes back; if a worker dies or stalls mid-chunk the chunk is re-run in slow mode, where a
//! `B idx` line is flushed before every case so that an abort is attributed to exactly one case.

use crate::util::{guard, Stats};
use serde_json::{json, Value};
use std::collections::VecDeque;
use std::io::{BufRead, BufReader, Write};
use std::process::{Child, Command, Stdio};
use std::sync::{Arc, Mutex};
use std::time::{Duration, Instant};

#[derive(Clone, Debug)]
pub struct Violation {
    pub kind: String,
    pub detail: Value,
}

impl Violation {
    pub fn new(kind: &str, detail: Value) -> Self {
        Violation {
            kind: kind.to_owned(),
            detail,
        }
    }
}

pub trait Workload: Sync + Send {
    /// Number of cases of this workload.
    fn len(&self) -> u64;
    /// A replayable, self-contained description of case `idx` (the concrete input).
    fn case_json(&self, seed: u64, idx: u64) -> Value;
    /// Runs case `idx`.
    fn run(&self, seed: u64, idx: u64, st: &mut Stats) -> Vec<Violation>;
    /// Runs a case from its description (replay).
    fn run_json(&self, case: &Value, st: &mut Stats) -> Vec<Violation>;
    /// Cases per chunk in fast mode.
    fn chunk(&self) -> u64 {
        500
    }
    /// Wall-clock watchdog per case in slow mode (seconds). Firing is a *suspicion*, re-checked in isolation.
    fn case_timeout_s(&self) -> u64 {
        20
    }
    /// Wall-clock watchdog per chunk in fast mode (seconds).
    fn chunk_timeout_s(&self) -> u64 {
        120
    }
}

#[derive(Clone, Debug)]
pub struct Crash {
    pub idx: u64,
    pub status: String,
    pub stderr_tail: String,
}

const MAX_SUSPECTS: usize = 4;
const MAX_CRASHES: usize = 12;
/// Only this many watchdog suspects are re-run in isolation.
const MAX_ISOLATED: usize = 2;

#[derive(Default)]
pub struct PoolResult {
    pub stats: Stats,
    pub violations: Vec<(u64, Violation)>,
    pub crashes: Vec<Crash>,
    /// Cases that did not finish within the isolated 10x watchdog.
    pub hangs: Vec<u64>,
    /// Cases whose first watchdog fired but which finished in isolation (recorded, not a verdict).
    pub slow_cases: Vec<u64>,
    pub harness_errors: Vec<String>,
    pub evaluations: u64,
    pub wall_s: f64,
    /// cases not run because the suspect/crash limit was reached
    pub dropped_after_limit: u64,
    /// suspects beyond the isolation budget (not confirmed, not a verdict)
    pub unconfirmed_suspects: Vec<u64>,
    /// the wall-clock budget of the workload was used up before all cases ran
    pub budget_exceeded: bool,
}

struct Shared {
    queue: VecDeque<(u64, u64, bool)>,
    in_flight: usize,
    res: PoolResult,
    suspects: Vec<u64>,
}

fn spawn_worker(workload: &str, tier: &str, seed: u64, errfile: &std::path::Path) -> std::io::Result<Child> {
    let exe = std::env::current_exe()?;
    let err = std::fs::File::create(errfile)?;
    let mut cmd = Command::new(exe);
    cmd.arg("worker")
        .arg(workload)
        .arg(tier)
        .arg(seed.to_string())
        .stdin(Stdio::piped())
        .stdout(Stdio::piped())
        .stderr(err);
    crate::util::own_group(&mut cmd).spawn()
}

fn tail(path: &std::path::Path, n: usize) -> String {
    let s = std::fs::read(path).unwrap_or_default();
    let s = String::from_utf8_lossy(&s);
    let t: Vec<&str> = s.lines().rev().take(n).collect();
    t.into_iter().rev().collect::<Vec<_>>().join("\n")
}

fn status_string(st: &std::process::ExitStatus) -> String {
    use std::os::unix::process::ExitStatusExt;
    if let Some(sig) = st.signal() {
        format!("signal {sig}")
    } else {
        format!("exit {}", st.code().unwrap_or(-1))
    }
}

struct Slot {
    child: Arc<Mutex<Option<Child>>>,
    deadline: Arc<Mutex<Option<Instant>>>,
    killed_by_watchdog: Arc<Mutex<bool>>,
}

/// Runs `n` cases of the workload across worker processes.
pub fn run_pool(wl: &dyn Workload, workload: &str, tier: &str, seed: u64, scratch: &std::path::Path) -> PoolResult {
    let t0 = Instant::now();
    let n = wl.len();
    let chunk = wl.chunk().max(1);
    let mut queue = VecDeque::new();
    let mut lo = 0;
    while lo < n {
        let hi = (lo + chunk).min(n);
        queue.push_back((lo, hi, false));
        lo = hi;
    }
    let nworkers = std::env::var("OALV_JOBS")
        .ok()
        .and_then(|s| s.parse::<usize>().ok())
        .unwrap_or_else(|| std::thread::available_parallelism().map(|n| n.get()).unwrap_or(4))
        .min(queue.len().max(1));
    let shared = Arc::new(Mutex::new(Shared {
        queue,
        in_flight: 0,
        res: PoolResult::default(),
        suspects: Vec::new(),
    }));
    let budget = Duration::from_secs(
        std::env::var("OALV_BUDGET_S")
            .ok()
            .and_then(|s| s.parse().ok())
            .unwrap_or(if tier == "quick" { 600 } else { 7200 }),
    );
    let case_timeout = Duration::from_secs(wl.case_timeout_s());
    let chunk_timeout = Duration::from_secs(wl.chunk_timeout_s());

    std::thread::scope(|scope| {
        let mut slots = Vec::new();
        for w in 0..nworkers {
            let slot = Slot {
                child: Arc::new(Mutex::new(None)),
                deadline: Arc::new(Mutex::new(None)),
                killed_by_watchdog: Arc::new(Mutex::new(false)),
            };
            let child_ref = slot.child.clone();
            let deadline_ref = slot.deadline.clone();
            let killed_ref = slot.killed_by_watchdog.clone();
            slots.push(slot);
            let shared = shared.clone();
            let errfile = scratch.join(format!("worker-{w}.stderr"));
            scope.spawn(move || {
                let mut stdin = None;
                let mut stdout: Option<BufReader<std::process::ChildStdout>> = None;
                loop {
                    // Fetch a chunk.
                    let job = {
                        let mut sh = shared.lock().unwrap();
                        // Enough watchdog suspects or crashes, or the wall-clock budget of this workload is used
                        // up: stop exploring (the budget firing alone is inconclusive, never a verdict).
                        let over_budget = t0.elapsed() > budget;
                        if over_budget && !sh.queue.is_empty() {
                            sh.res.budget_exceeded = true;
                        }
                        if over_budget || sh.suspects.len() >= MAX_SUSPECTS || sh.res.crashes.len() >= MAX_CRASHES {
                            let dropped: u64 = sh.queue.iter().map(|(lo, hi, _)| hi - lo).sum();
                            if dropped > 0 {
                                sh.res.dropped_after_limit += dropped;
                                sh.queue.clear();
                            }
                        }
                        match sh.queue.pop_front() {
                            Some(j) => {
                                sh.in_flight += 1;
                                Some(j)
                            }
                            None => {
                                if sh.in_flight == 0 {
                                    None
                                } else {
                                    drop(sh);
                                    std::thread::sleep(Duration::from_millis(20));
                                    continue;
                                }
                            }
                        }
                    };
                    let Some((lo, hi, slow)) = job else { break };
                    // Make sure a worker is alive.
                    if child_ref.lock().unwrap().is_none() {
                        match spawn_worker(workload, tier, seed, &errfile) {
                            Ok(mut c) => {
                                stdin = c.stdin.take();
                                stdout = c.stdout.take().map(BufReader::new);
                                *child_ref.lock().unwrap() = Some(c);
                            }
                            Err(e) => {
                                let mut sh = shared.lock().unwrap();
                                sh.res.harness_errors.push(format!("cannot spawn worker: {e}"));
                                sh.in_flight -= 1;
                                break;
                            }
                        }
                    }
                    *killed_ref.lock().unwrap() = false;
                    *deadline_ref.lock().unwrap() =
                        Some(Instant::now() + if slow { case_timeout } else { chunk_timeout });
                    let cmd = format!("RUN {lo} {hi} {}\n", if slow { 1 } else { 0 });
                    let sent = stdin
                        .as_mut()
                        .map(|s| s.write_all(cmd.as_bytes()).and_then(|_| s.flush()).is_ok())
                        .unwrap_or(false);
                    let mut last_begin: Option<u64> = None;
                    let mut done = false;
                    let mut local_viol: Vec<(u64, Violation)> = Vec::new();
                    let mut local_err: Vec<String> = Vec::new();
                    let mut local_stats: Option<Stats> = None;
                    if sent {
                        let rd = stdout.as_mut().unwrap();
                        let mut line = String::new();
                        loop {
                            line.clear();
                            match rd.read_line(&mut line) {
                                Ok(0) | Err(_) => break,
                                Ok(_) => {}
                            }
                            let l = line.trim_end();
                            if let Some(r) = l.strip_prefix("B ") {
                                last_begin = r.parse().ok();
                                *deadline_ref.lock().unwrap() = Some(Instant::now() + case_timeout);
                            } else if let Some(r) = l.strip_prefix("V ") {
                                let mut it = r.splitn(3, ' ');
                                let idx = it.next().and_then(|x| x.parse().ok()).unwrap_or(u64::MAX);
                                let kind = it.next().unwrap_or("?").to_owned();
                                let detail = it
                                    .next()
                                    .and_then(|j| serde_json::from_str(j).ok())
                                    .unwrap_or(Value::Null);
                                local_viol.push((idx, Violation { kind, detail }));
                            } else if let Some(r) = l.strip_prefix("H ") {
                                local_err.push(r.to_owned());
                            } else if let Some(r) = l.strip_prefix("DONE ") {
                                local_stats = serde_json::from_str::<Value>(r).ok().map(|v| Stats::from_json(&v));
                                done = true;
                                break;
                            }
                        }
                    }
                    *deadline_ref.lock().unwrap() = None;
                    let mut sh = shared.lock().unwrap();
                    if done {
                        if let Some(s) = local_stats {
                            sh.res.stats.merge(&s);
                        }
                        sh.res.evaluations += hi - lo;
                        sh.res.violations.extend(local_viol);
                        sh.res.harness_errors.extend(local_err);
                    } else {
                        // The worker died or was killed.
                        let status = {
                            let mut g = child_ref.lock().unwrap();
                            let st = g.as_mut().and_then(|c| c.wait().ok());
                            *g = None;
                            st.map(|s| status_string(&s)).unwrap_or_else(|| "unknown".into())
                        };
                        stdin = None;
                        stdout = None;
                        let by_watchdog = *killed_ref.lock().unwrap();
                        if !slow {
                            // Re-run the chunk in slow mode for attribution; results of the partial run are discarded.
                            sh.queue.push_front((lo, hi, true));
                        } else {
                            let idx = last_begin.unwrap_or(lo);
                            // Keep what was reported before the crash.
                            sh.res.violations.extend(local_viol);
                            sh.res.harness_errors.extend(local_err);
                            sh.res.evaluations += idx + 1 - lo;
                            if by_watchdog {
                                sh.suspects.push(idx);
                            } else {
                                sh.res.crashes.push(Crash {
                                    idx,
                                    status,
                                    stderr_tail: tail(&errfile, 12),
                                });
                            }
                            if idx + 1 < hi {
                                sh.queue.push_front((idx + 1, hi, true));
                            }
                        }
                    }
                    sh.in_flight -= 1;
                }
                // Shut the worker down.
                drop(stdin);
                if let Some(mut c) = child_ref.lock().unwrap().take() {
                    let _ = c.wait();
                }
            });
        }
        // Watchdog.
        let shared_w = shared.clone();
        scope.spawn(move || loop {
            {
                let sh = shared_w.lock().unwrap();
                if sh.queue.is_empty() && sh.in_flight == 0 {
                    break;
                }
            }
            for s in slots.iter() {
                let expired = matches!(*s.deadline.lock().unwrap(), Some(d) if Instant::now() > d);
                if expired {
                    *s.killed_by_watchdog.lock().unwrap() = true;
                    if let Some(c) = s.child.lock().unwrap().as_mut() {
                        crate::util::kill_tree(c);
                    }
                    *s.deadline.lock().unwrap() = None;
                }
            }
            std::thread::sleep(Duration::from_millis(100));
        });
    });

    let mut sh = Arc::try_unwrap(shared).ok().unwrap().into_inner().unwrap();
    // Isolated re-run of watchdog suspects with a 10x limit.
    let suspects = std::mem::take(&mut sh.suspects);
    for (k, idx) in suspects.into_iter().enumerate() {
        if k >= MAX_ISOLATED {
            sh.res.unconfirmed_suspects.push(idx);
            continue;
        }
        let errfile = scratch.join("isolated.stderr");
        let limit = case_timeout * 10;
        match run_isolated(workload, tier, seed, idx, &errfile, limit) {
            Isolated::Finished(viol, errs) => {
                sh.res.slow_cases.push(idx);
                sh.res.violations.extend(viol.into_iter().map(|v| (idx, v)));
                sh.res.harness_errors.extend(errs);
            }
            Isolated::Died(status) => sh.res.crashes.push(Crash {
                idx,
                status,
                stderr_tail: tail(&errfile, 12),
            }),
            Isolated::TimedOut => sh.res.hangs.push(idx),
        }
    }
    sh.res.wall_s = t0.elapsed().as_secs_f64();
    sh.res
}

enum Isolated {
    Finished(Vec<Violation>, Vec<String>),
    Died(String),
    TimedOut,
}

fn run_isolated(
    workload: &str,
    tier: &str,
    seed: u64,
    idx: u64,
    errfile: &std::path::Path,
    limit: Duration,
) -> Isolated {
    let Ok(mut c) = spawn_worker(workload, tier, seed, errfile) else {
        return Isolated::Died("cannot spawn".into());
    };
    let mut stdin = c.stdin.take().unwrap();
    let stdout = c.stdout.take().unwrap();
    let _ = stdin.write_all(format!("RUN {idx} {} 1\n", idx + 1).as_bytes());
    let _ = stdin.flush();
    let (tx, rx) = std::sync::mpsc::channel();
    std::thread::spawn(move || {
        let mut viol = Vec::new();
        let mut errs = Vec::new();
        let mut done = false;
        for line in BufReader::new(stdout).lines().map_while(Result::ok) {
            if let Some(r) = line.strip_prefix("V ") {
                let mut it = r.splitn(3, ' ');
                let _ = it.next();
                let kind = it.next().unwrap_or("?").to_owned();
                let detail = it.next().and_then(|j| serde_json::from_str(j).ok()).unwrap_or(Value::Null);
                viol.push(Violation { kind, detail });
            } else if let Some(r) = line.strip_prefix("H ") {
                errs.push(r.to_owned());
            } else if line.starts_with("DONE ") {
                done = true;
                break;
            }
        }
        let _ = tx.send((done, viol, errs));
    });
    match rx.recv_timeout(limit) {
        Ok((true, v, e)) => {
            drop(stdin);
            let _ = c.wait();
            Isolated::Finished(v, e)
        }
        Ok((false, _, _)) => {
            let st = c.wait().map(|s| status_string(&s)).unwrap_or_else(|_| "unknown".into());
            Isolated::Died(st)
        }
        Err(_) => {
            crate::util::kill_tree(&mut c);
            let _ = c.wait();
            Isolated::TimedOut
        }
    }
}

/// Worker side: serves RUN commands until stdin closes.
pub fn worker_main(wl: &dyn Workload, seed: u64) {
    let stdin = std::io::stdin();
    let stdout = std::io::stdout();
    let mut line = String::new();
    loop {
        line.clear();
        if stdin.lock().read_line(&mut line).unwrap_or(0) == 0 {
            break;
        }
        let parts: Vec<&str> = line.split_whitespace().collect();
        if parts.len() != 4 || parts[0] != "RUN" {
            continue;
        }
        let lo: u64 = parts[1].parse().unwrap_or(0);
        let hi: u64 = parts[2].parse().unwrap_or(0);
        let slow = parts[3] == "1";
        let mut st = Stats::new();
        let mut out = stdout.lock();
        for idx in lo..hi {
            if slow {
                let _ = writeln!(out, "B {idx}");
                let _ = out.flush();
            }
            match guard(|| wl.run(seed, idx, &mut st)) {
                Ok(vs) => {
                    for v in vs {
                        let _ = writeln!(out, "V {idx} {} {}", v.kind.replace(' ', "_"), v.detail);
                    }
                }
                Err(p) => {
                    let _ = writeln!(
                        out,
                        "H case {idx}: harness panic: {} at {}",
                        p.message.replace('\n', " "),
                        p.location
                    );
                }
            }
        }
        let _ = writeln!(out, "DONE {}", st.to_json());
        let _ = out.flush();
    }
}

/// Summary of a pool result as JSON for evidence files.
pub fn summarize(r: &PoolResult) -> Value {
    json!({
        "evaluations": r.evaluations,
        "violations": r.violations.len(),
        "child_crashes_attributed": r.crashes.len(),
        "hangs_confirmed": r.hangs.len(),
        "watchdog_slow_cases": r.slow_cases.len(),
        "watchdog_suspects_not_confirmed": r.unconfirmed_suspects.len(),
        "cases_dropped_after_suspect_limit": r.dropped_after_limit,
        "wall_clock_budget_exceeded": r.budget_exceeded,
        "harness_errors": r.harness_errors.len(),
        "wall_s": r.wall_s,
    })
}
