#!/bin/bash
# Runs the quick tier of the relevant checks against every seeded change (both rounds) in a scratch worktree.
# Output: /tmp/seeded/final-matrix.txt (read by tools/pack_seeded.py).
export OALV_BUDGET_S=${OALV_BUDGET_S:-150}
export WT=${WT:-/tmp/wt-eval}
declare -A MAP=( [C01]="C01 C09" [C02]="C02 C08 C09" [C03]="C03" [C04]="C04 C12 C01 C02" [C05]="C05 C08 C02" [C06]="C06" [C07]="C07" [C08]="C08 C02" [C09]="C09 C01" [C10]="C10" [C11]="C11 C17" [C12]="C12" [C13]="C13 C15" [C14]="C14" [C15]="C15" [C16]="C16 C17 C18" [C17]="C17 C15" [C18]="C18 C08 C17" )
for p in C01 C02 C03 C05 C06 C07 C08 C09 C10 C11 C13 C14 C15 C16 C17 C18 C12 C04; do
  for r in 1 2; do for v in A B; do
    if [ $r = 1 ]; then f=/tmp/seeded/out-$p/$v/patch.diff; key="$p/$v"; else f=/tmp/seeded/out2-$p/$v/patch.diff; key="$p/r2$v"; fi
    [ -f "$f" ] || continue
    echo "### $key"
    /verif/tools/eval_seeded.sh "$f" quick ${MAP[$p]} 2>&1 | cut -c1-400
  done; done
done
echo "### DONE"
