#!/bin/bash
# Runs the quick tier of the relevant checks against every seeded change (all rounds) in a scratch worktree,
# with a frozen copy of the harness sources. Output: /tmp/seeded/final-matrix.txt (read by tools/pack_seeded.py).
# usage: tools/run_matrix.sh [first-property]   (e.g. C07 to resume there)
export OALV_BUDGET_S=${OALV_BUDGET_S:-150}
export WT=${WT:-/tmp/wt-eval}
export SNAP=${SNAP:-/tmp/harness-snap}
OUT=${OUT:-/tmp/seeded/final-matrix.txt}
rsync -a --delete /verif/harness/ "$SNAP/" --exclude target
declare -A MAP=( [C01]="C01 C09" [C02]="C02 C08 C09" [C03]="C03 C13" [C04]="C04 C12 C01" [C05]="C05 C08 C02" [C06]="C06" [C07]="C07" [C08]="C08 C02" [C09]="C09 C01" [C10]="C10 C15" [C11]="C11 C15" [C12]="C12" [C13]="C13 C15" [C14]="C14 C13" [C15]="C15" [C16]="C16 C15 C17" [C17]="C17 C15" [C18]="C18 C15 C17" )
start=${1:-C01}
go=0
for p in C01 C02 C03 C05 C06 C07 C08 C09 C10 C11 C13 C14 C15 C16 C17 C18 C12 C04; do
  [ "$p" = "$start" ] && go=1
  [ $go = 1 ] || continue
  for r in ${ROUNDS:-1 2 3 4 5}; do for v in A B; do
    case $r in 1) f=/tmp/seeded/out-$p/$v/patch.diff; key="$p/$v";; *) f=/tmp/seeded/out$r-$p/$v/patch.diff; key="$p/r$r$v";; esac
    [ -f "$f" ] || continue
    echo "### $key" >> "$OUT"
    /verif/tools/eval_seeded.sh "$f" quick ${MAP[$p]} 2>&1 | cut -c1-400 >> "$OUT"
  done; done
done
echo "### DONE" >> "$OUT"
