#!/usr/bin/env python3
"""Generates /verif/MANIFEST.json from the table below (kept next to the checks so it stays current)."""
import json, os, sys

ROOT = os.path.dirname(os.path.dirname(os.path.abspath(__file__)))

CHECKS = {
    "C02": dict(
        category="translation_validation",
        technique="runtime monitoring: reference-model monitor (independent reference evaluator/emitter over the generator's AST) comparing every emitted document of generated programs, in isolated worker processes",
        text="Every generated well-typed program is compiled by the real pipeline and its document compared, up to bisimilarity of implicit components, with the document an independent reference evaluator computes from the generator's abstract syntax; strict equality, so extras are caught as well as omissions. Sampled programs, not a proof.",
        note="Trusted: the reference semantics (DESIGN.md Appendix A), serde_yaml's parser, the generator's exclusions for unspecified shapes and open findings (DESIGN.md sections 6, 8).",
        design="5/C02, Appendix A",
    ),
    "C01": dict(
        category="exploration",
        technique="runtime monitoring: crash monitor (panic hook per stage, child-process abort/hang attribution) over load->eval->emit of generated programs, kind-breaking mutants accepted by the checker, nesting families and the recursive declaration graphs of C09's generator; Miri stage in the thorough tier",
        text="Whatever the checker accepts out of G-wt programs, kind-breaking AST mutants, token/byte mutants, corpus programs and nesting families to depth 200 is evaluated and emitted in a worker process; a panic, abort, hang or unlocated error value is attributed to one input. Sampled, bounded depth and size.",
        note="Trusted: the worker pool's crash attribution; the watchdog only suspects, a hang needs a second, isolated 10x confirmation. Open finding (cross-module instantiation of under-constrained functions) is keyed by signature + trigger shape.",
        design="5/C01",
    ),
    "C03": dict(
        category="exploration",
        technique="runtime monitoring: structural invariant walker over every emitted document (re-parsed YAML) of the exploration workload, plus YAML round-trip differential, plus the target file the real oal-cli writes when a target is regenerated (series of programs into one path)",
        text="Every document the pipeline emits for generated programs, accepted mutants and corpus programs is re-parsed and walked by an independent validator: $ref closure, path variables vs required path parameters, response-key domain, operationId uniqueness, YAML round trip.",
        note="Trusted: serde_yaml's parser (YAML 1.2 core schema). Known finding: synthesised operationId collisions.",
        design="5/C03",
    ),
    "C04": dict(
        category="exploration",
        technique="runtime monitoring: crash monitor (per-entry-point panic capture, child-process abort/hang attribution) over hostile text workloads through parse, the playground entry point and the language server cycle; sanitizer stages (ASan/Miri/memcheck) and process-level slices in the thorough tier",
        text="All token sequences up to length 3 over the full token alphabet and up to 5/6 over a reduced one (exhaustive), nesting families to depth 200, generated programs, token/byte mutants and arbitrary Unicode are fed to oal_syntax::parse, oal_wasm::compile and the LSP open/load/eval/diagnostics cycle in worker processes; each must answer with a result or diagnostics.",
        note="Trusted: the worker pool's crash attribution. Texts are sampled except the enumerated token-sequence spaces.",
        design="5/C04",
    ),
    "C11": dict(
        category="exploration",
        technique="runtime monitoring: structural invariant walkers over tokenizer and parser outputs (token tiling, values vs slices, tree leaves vs tokens, node span hull) and over every span carried by syntax/compiler errors; plus a located-error monitor over recorded language-server sessions (the error the library locates must be published for the document of its module with exactly the range of its span in the client's text) and a span-table monitor over navigation sessions of the real oal-lsp on workspaces with multi-byte comments and CRLF between tokens (definition/references locations at every position, prepareRename ranges)",
        text="For every text of the workload the token spans must tile the text outside lexical-error spans, token values must be what their slices denote, the tree's leaves must be the non-trivia tokens of the parsed prefix in order, node spans must be the hull of their leaves, and error spans must lie inside their own module's text on char boundaries.",
        note="Trusted: the walker's own hull computation; tokenizer assumed context-free longest-match for the re-lex check.",
        design="5/C11",
    ),
    "C12": dict(
        category="exploration",
        technique="runtime monitoring: differential monitor (memoising vs non-memoising parser on the same token list, structural dump comparison) and a logical work-counter monitor through the cfg-guarded counter/read-limit hooks",
        text="Each text is parsed with and without the memo table and the results (ok/err, stop cursor, error span, full tree dump) compared; the cached parser's token-read counter must stay under 100*n+100 and grow by at most 2.5x when nesting depth doubles. No wall-clock time is involved.",
        note="Uncached parses over 200k token reads are cut off by the read-limit hook and counted as infeasible, not as verdicts. Linearity is a measured bound over the families driven, not a complexity proof.",
        design="5/C12",
    ),
    "C05": dict(
        category="exploration",
        technique="runtime monitoring: metamorphic differential monitor (original vs rewritten sources through the real pipeline, canonical documents compared) over random rewrite sequences, one in three starting from the tight print",
        text="Accepted generated programs and accepted mutants are rewritten by random sequences of the property's meaning-preserving steps (parenthesise, name/inline, abstract into a function, rename binders, permute, trivia, move into a module); every intermediate program must still be accepted and emit the same canonical document; hand-written corpus programs get random blanks, newlines and comments between any two tokens.",
        note="Side conditions make each step meaning-preserving in the language itself (DESIGN.md C05, section 8). Mutants only get the purely syntactic rewrites because of two open order-dependence findings.",
        design="5/C05",
    ),
    "C07": dict(
        category="exploration",
        technique="runtime monitoring: reference-model monitor for the unifier (hooked InferenceSet::unify vs an independent Robinson unifier, exhaustive over small equation systems, divergence observed as child abort), metamorphic verdict monitor under permutation/renaming, construction-based solvability oracle, exhaustive kind table (typed positions x expressions of every kind against the kinding rule of the position)",
        text="Every single equation over 264 tag terms and every pair over a fixed subset is fed to the real unifier and compared with a reference unifier (verdict, solution, most generality, order invariance); generated programs and mutants are re-checked under statement permutations and injective respellings; well-kinded programs must be accepted and 16 kinds of unsolvable declarations rejected.",
        note="Termination is observed as bounded progress: a diverging reduce is a stack overflow, i.e. a child abort attributed to one system.",
        design="5/C07",
    ),
    "C09": dict(
        category="exploration",
        technique="runtime monitoring: reference-model monitor ($ref graph unfolding compared by bisimulation with the reference evaluator's regular tree), component-count conservation monitor, verdict monitor for uncuttable cycles, watchdog for termination",
        text="Recursion-biased generated programs and five hand-shaped recursion scenario families are compiled; the document must unfold to the recursive schema the reference assigns, must not contain more implicit components than recursion points evaluated, and cycles with nothing to cut at must be rejected.",
        note="Trusted: reference semantics and the bisimulation canonical form. Termination is a watchdog observation (suspect, then isolated 10x confirmation).",
        design="5/C09",
    ),
    "C10": dict(
        category="exploration",
        technique="runtime monitoring: offline trace checker over the recorded call log (is_valid/load/parse/compile with logical sequence numbers) of a recording Loader delegating to the real parse/compile, against the generator's import graph (flat and two-directory layouts); exhaustive over small graphs; exact location of missing-import errors; deep graphs (60k/150k modules) loaded on a 2 MiB thread under the pool's abort attribution; plus a located-error monitor over recorded language-server sessions (the error the library locates must be published for the document of its module with exactly the range of its span in the client's text)",
        text="All import digraphs on up to 3 (thorough 4) modules and random graphs on up to 8 with aliased spellings, duplicate use lines and missing targets are loaded through a recording in-memory Loader; the log must show each reachable module loaded, parsed and compiled exactly once and after its imports, cycles and missing imports must be the right errors, and permuted/re-spelled use lines must not change the result.",
        note="Module bodies use imported values and functions so a wrong compile order is also observable as a crash or wrong verdict.",
        design="5/C10",
    ),
    "C08": dict(
        category="exploration",
        technique="runtime monitoring: reference-model monitor (generator's binding table vs definition() of every Variable node after the real resolver ran) + document comparison for shadowing programs + located-error monitor for unbound/duplicate names",
        text="For shadowing-heavy generated multi-module programs every identifier use's resolved definition is compared by source range with the binder the scoping rules give; the emitted document is compared with the reference (so a run-time lookup that picks a caller's binding shows); unbound and duplicate names must be located errors.",
        note="Trusted: the generator's binding table; the printer's span table.",
        design="5/C08",
    ),
    "C06": dict(
        category="exploration",
        technique="runtime monitoring: differential monitor across N fresh oal-cli processes (different hash seeds each) with byte comparison of the target files (half of the processes started from another working directory; near-colliding paths and operation ids, header names differing by case, existing targets that nearly hold the document to come), and across repeated in-process compilations incl. a second thread",
        text="Generated programs biased to what can leak map order are compiled by the real CLI in 8 (thorough 32) fresh processes and the YAML bytes compared; in-process, A, B, A and A on a second thread must give identical bytes.",
        note="Byte equality is the oracle; nothing is normalised.",
        design="5/C06",
    ),
    "C13": dict(
        category="exploration",
        technique="runtime monitoring: differential monitor over three front ends (real oal-cli process, playground entry point, language-server cycle) plus a file-system monitor (bytes/inode/mtime of a sentinel target; strace in the thorough tier) and a stderr report-shape monitor; options vs configuration file precedence, sessions with two workspace folders; plus a located-error monitor over recorded language-server sessions (the error the library locates must be published for the document of its module with exactly the range of its span in the client's text)",
        text="Workspaces with sources accepted and rejected at each phase (error injected in the main or an imported module), options vs config file, with/without base: exit status, located report, untouched sentinel target on failure, complete target equal to the library output on success, agreement with the playground and with the language server's diagnostics.",
        note="An import cycle has no source position; its report only needs the failure exit and message. Configuration failures need no location.",
        design="5/C13",
    ),
    "C14": dict(
        category="exploration",
        technique="runtime monitoring: field-wise differential monitor of the merged output against the base (as the tool's model represents it, and raw when the model round-trips it) and against the base-less output; a slice through the real oal-cli -b regenerating an existing, longer target; half of the bases open (carried-over components referring to base schemas, empty mandatory strings)",
        text="Generated base documents over the OpenAPI object model combined with generated programs: everything outside paths and components.schemas must equal the base, paths and schema components must equal the base-less output up to generated names; the merged document is also walked by C03's validator.",
        note="Bases are closed w.r.t. what survives the merge. openapiv3's model is the trusted representation at level 1.",
        design="5/C14",
    ),
    "C15": dict(
        category="exploration",
        technique="runtime monitoring: offline comparison of two recorded JSON-RPC sessions of the real oal-lsp (history server vs fresh server handed the final texts), client texts from an independent UTF-16 document model, liveness polling, logical (request/response) synchronisation; plus a server-independent located-error monitor at every checkpoint; directed history families (single-module, library-only edits, main module switching imports) besides the random ones",
        text="Random protocol-valid histories of didOpen/didChange/didClose with full and incremental changes at arbitrary UTF-16 ranges, bursts and interleaved requests over a 4-file workspace; at checkpoints the last published diagnostics per URI and the answers to definition/references/prepareRename/rename probes must equal those of a fresh server.",
        note="Files on disk stay fixed during a history. Timing never decides a verdict.",
        design="5/C15",
    ),
    "C17": dict(
        category="exploration",
        technique="runtime monitoring: reference-model monitor (generator's span and binding tables) over a full position sweep of definition/references requests against the real oal-lsp process, half of the sessions after unsaved drafts of every module were opened, queried and closed, and half of them swept a second time after an unsaved edit of one module moved its lines",
        text="For generated multi-module workspaces every UTF-16 position of every line is sent as textDocument/definition and textDocument/references to the real server; answers must be exactly the binder location / the set of bound uses, and empty off identifiers.",
        note="Lenient zones where the statement does not decide: right after an identifier, qualifier and dot, binder tokens.",
        design="5/C17",
    ),
    "C18": dict(
        category="exploration",
        technique="runtime monitoring: end-to-end monitor of prepareRename/rename against the real oal-lsp with client-side edit application and compile-and-compare of both versions through the real oal-cli; liveness monitor; half of the sessions after unsaved drafts of every module were opened, edited, queried and closed; some with older files on disk than the client opens",
        text="At the start and middle of every identifier occurrence (and random positions) of generated workspaces, wherever prepareRename offers a range the identifier is renamed to a fresh name; edits must not overlap and must each replace exactly the old name, the edited sources must compile to the same canonical document, and the server must stay alive.",
        note="For @names the expected document is the original with that component renamed.",
        design="5/C18",
    ),
    "C16": dict(
        category="exploration",
        technique="runtime monitoring: reference-model monitor over an exhaustively enumerated input space (all texts up to a length bound, all offsets/positions) through the cfg-guarded conversion hooks; plus a located-error monitor over recorded language-server sessions (the error the library locates must be published for the document of its module with exactly the range of its span in the client's text)",
        text="All texts of <=6 (thorough <=8) units over {a, é, €, 😉, LF, CRLF}, every boundary offset, every position in the stated box and every span are checked against an independent reference conversion: exhaustive within the bound.",
        note="Trusted: the reference conversion (encode_utf16 + explicit line table). Lone CR and positions inside a surrogate pair are outside the property.",
        design="5/C16",
    ),
}

NOT_YET = {}

def main():
    props = [json.loads(l) for l in open(os.path.join(ROOT, "properties.jsonl"))]
    checks = []
    na = []
    for p in props:
        pid = p["id"]
        if pid in CHECKS:
            c = CHECKS[pid]
            checks.append({
                "property_id": pid,
                "quick_cmd": f"./check {pid} quick",
                "thorough_cmd": f"./check {pid} thorough",
                "evidence_file": f"/verif/evidence/{pid}.json",
                "replay_cmd_template": "./check replay {path}",
                "engine": "oalv",
                "level_claimed": {"category": c["category"], "text": c["text"], "design_ref": c["design"]},
                "level_note": c["note"],
                "technique": c["technique"],
            })
        else:
            na.append({"property_id": pid, "reason": NOT_YET.get(pid, "check not built yet in this session (planned, see DESIGN.md section 5); no claim is made until it runs")})
    m = {
        "version": 1,
        "setup_cmd": "./check setup",
        "hooks": {
            "guard": "cargo feature `verif` on oal-model, oal-compiler, oal-client",
            "enable": "the harness crate /verif/harness depends on /repo's crates by path with features = [\"verif\"]; ./check rebuilds it from /repo's working tree",
            "baseline_off_cmd": "cd /repo && cargo test --workspace --no-fail-fast --offline",
            "source_commits": ["68268e8", "05ae25e", "b361f91", "4452cf3"],
            "add_only": True,
        },
        "engines": [{
            "name": "oalv",
            "path": "/verif/harness",
            "serves_properties": [c["property_id"] for c in checks],
            "kind_free_text": "Rust harness linking the real crates (in-process monitors in isolated worker processes with crash attribution) and driving the real oal-cli / oal-lsp binaries; sanitizer stages (Miri, ASan, valgrind) in thorough tiers",
        }],
        "checks": checks,
        "not_applicable": na,
        "notes": "Exit codes: 0 held on what was observed, 1 violation (VIOLATION line), 2 inconclusive (no verdict). Known findings: /verif/KNOWN_FINDINGS.txt.",
    }
    json.dump(m, open(os.path.join(ROOT, "MANIFEST.json"), "w"), indent=1)
    print("MANIFEST.json:", len(checks), "checks,", len(na), "not claimed")

if __name__ == "__main__":
    main()
