#!/bin/bash
# usage: tools/eval_seeded.sh <patch.diff> <tier> <Cxx> [<Cxx> ...]
# Applies a seeded change to a scratch worktree of /repo (outside /repo and /verif), runs the given checks
# against it through OALV_REPO, prints one line per check, and resets the worktree.
set -u
PATCH="$1"; TIER="$2"; shift 2
WT="${WT:-/tmp/wt-eval}"
if [ ! -d "$WT" ]; then git -C /repo worktree add -q --detach "$WT" HEAD; fi
git -C "$WT" checkout -q --detach "$(git -C /repo rev-parse HEAD)" 2>/dev/null
git -C "$WT" checkout -q -- . && git -C "$WT" clean -qfd -e target
if ! git -C "$WT" apply "$PATCH"; then echo "PATCH DOES NOT APPLY: $PATCH"; exit 3; fi
cd /verif
# evaluate with a frozen copy of the harness sources, so that the working copy can be edited meanwhile
if [ -n "${SNAP:-}" ]; then export OALV_HARNESS_DIR="$SNAP"; fi
for c in "$@"; do
  out=$(OALV_EVIDENCE=/tmp/seeded-evidence OALV_REPLAYS=/tmp/seeded-replays OALV_REPO="$WT" VERIF_SEED="${VERIF_SEED:-1}" ./check "$c" "$TIER" 2>&1)
  code=$?
  sig=$(echo "$out" | grep -E "^  what:" | head -2 | cut -c1-200 | tr '\n' ' ')
  echo "$c $TIER exit=$code $(echo "$out" | grep -E "^$c $TIER:" | sed 's/.*evaluations, //') $sig"
  if [ $code -eq 2 ]; then echo "$out" | grep -E "INCONCLUSIVE|error" | head -3; fi
done
git -C "$WT" checkout -q -- . && git -C "$WT" clean -qfd -e target
