#!/usr/bin/env python3
"""Packs seeded changes from /tmp/seeded/out*-Cxx/{A,B} into /verif/seeded/<id>/ with meta.json.
Detection results are read from /tmp/seeded/final-matrix.txt (written by tools/run_matrix.sh)."""
import json, os, re, shutil, sys

SRC = "/tmp/seeded"
DST = "/verif/seeded"

def load_json(p):
    try:
        return json.load(open(p))
    except Exception:
        return {}

# patches edited after they were made, and why
REBASED = {
    "C10/r5B": " | patch.diff rebased onto /repo d27dd89 (the fix changed the line the patch removes: `p.exists()` -> `p.is_file()`); the change itself is unaltered",
}

demos = {}
import glob
for f in sorted(glob.glob(os.path.join(SRC, "verify-demos-*.json"))):
    demos.update(load_json(f))

tests = {}
for p in sorted(glob.glob(os.path.join(SRC, "verify_tests*.txt"))):
    if os.path.exists(p):
        for l in open(p):
            m = re.match(r"(\S+) tests_passed=(\d+) failed_or_error=(\d+)", l)
            if m:
                tests[m.group(1)] = (int(m.group(2)), int(m.group(3)))

# detection matrix: "### <id>" then lines "Cxx tier exit=N ... what: ..."; blocks of the same id are merged,
# a later result of the same check replaces an earlier one (re-evaluations with a strengthened harness come later)
det = {}
p = os.path.join(SRC, "combined-matrix.txt")
if not os.path.exists(p):
    p = os.path.join(SRC, "final-matrix.txt")
if os.path.exists(p):
    cur = None
    for l in open(p):
        l = l.rstrip("\n")
        if l.startswith("### "):
            cur = l[4:].strip()
            det.setdefault(cur, {})
        elif cur and re.match(r"C\d\d (quick|thorough) exit=", l):
            m = re.match(r"(C\d\d) (\w+) exit=(\d+)(.*)", l)
            sig = ""
            w = re.search(r"what: (.*?) ::", l)
            if w:
                sig = w.group(1).strip()
            if int(m.group(3)) in (0, 1):
                det[cur][(m.group(1), m.group(2))] = {"check": m.group(1), "tier": m.group(2), "exit": int(m.group(3)), "first_signature": sig}
    det = {k: list(v.values()) for k, v in det.items()}

os.makedirs(DST, exist_ok=True)
index = []
for rnd, prefix in ((1, "out-"), (2, "out2-"), (3, "out3-"), (4, "out4-"), (5, "out5-"), (6, "out6-"), (7, "out7-"), (8, "out8-")):
    for i in range(1, 19):
        pid = f"C{i:02d}"
        for v in "AB":
            src = os.path.join(SRC, f"{prefix}{pid}", v)
            if not os.path.exists(os.path.join(src, "patch.diff")):
                continue
            key = f"{pid}/{v}" if rnd == 1 else f"{pid}/r{rnd}{v}"
            sid = f"{pid}-r{rnd}{v}"
            dst = os.path.join(DST, sid)
            if os.path.exists(dst):
                shutil.rmtree(dst)
            os.makedirs(dst)
            shutil.copy(os.path.join(src, "patch.diff"), dst)
            if os.path.exists(os.path.join(src, "README.md")):
                shutil.copy(os.path.join(src, "README.md"), dst)
            if os.path.isdir(os.path.join(src, "demo")):
                shutil.copytree(os.path.join(src, "demo"), os.path.join(dst, "demo"))
            readme = open(os.path.join(src, "README.md")).read() if os.path.exists(os.path.join(src, "README.md")) else ""
            # what it needs to manifest: the README paragraph that mentions "trigger" / "manifest", else the first 600 chars
            needs = ""
            for para in re.split(r"\n\s*\n", readme):
                if re.search(r"trigger|manifest|needs|only shows|requires", para, re.I):
                    needs = re.sub(r"\s+", " ", para).strip()[:900]
                    break
            if not needs:
                needs = re.sub(r"\s+", " ", readme)[:600]
            d = demos.get(key, {})
            t = tests.get(key)
            detections = det.get(key, [])
            meta = {
                "id": sid,
                "property": pid,
                "origin": f"independent sub-agent, round {rnd}, given only the property text and a scratch worktree" + (" (asked for a narrow trigger that survives a large randomized workload)" if rnd >= 3 else ""),
                "summary": re.sub(r"\s+", " ", readme)[:400],
                "needs_to_manifest": needs,
                "confirmed": {
                    "patch_applies_to_repo_head": t is not None,
                    "workspace_builds": t is not None,
                    "existing_tests_passed": t[0] if t else None,
                    "existing_tests_failed_or_build_errors": t[1] if t else None,
                    "demonstration": d.get("demo"),
                    "demonstration_fails_with_change": d.get("fails_with_change"),
                    "demonstration_passes_without_change": d.get("passes_without_change"),
                    "notes": (d.get("notes") or "") + REBASED.get(key, ""),
                },
                "what_was_run": [
                    "git apply patch.diff in a scratch worktree of /repo (outside /repo and /verif); cargo test --workspace --offline",
                    "the demonstration in demo/ (see demo/RUN.md) with and without the change",
                    "tools/eval_seeded.sh patch.diff quick <checks> (OALV_REPO = the scratch worktree)",
                ],
                "detected_by": [x for x in detections if x["exit"] == 1],
                "not_detected_by": [x["check"] + " " + x["tier"] for x in detections if x["exit"] != 1],
            }
            json.dump(meta, open(os.path.join(dst, "meta.json"), "w"), indent=1)
            index.append((sid, pid, [x["check"] + ("" if x["tier"] == "quick" else " (thorough)") for x in detections if x["exit"] == 1]))
with open(os.path.join(DST, "INDEX.md"), "w") as f:
    f.write("# Seeded changes used to validate the monitors\n\nEach directory: patch.diff (source change), demo/ (demonstration that fails with the change and passes without), README.md (the author's description), meta.json (what was confirmed, what detects it).\n\n| id | property | detected by (quick tier unless noted) |\n|---|---|---|\n")
    for sid, pid, d in index:
        f.write(f"| {sid} | {pid} | {', '.join(d) if d else '—'} |\n")
print(len(index), "seeded changes packed")
