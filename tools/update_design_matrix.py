#!/usr/bin/env python3
"""Regenerates the detection matrix in DESIGN.md from seeded/*/meta.json."""
import json, glob, os, re
rows = []
for f in sorted(glob.glob('/verif/seeded/*/meta.json')):
    m = json.load(open(f))
    det = sorted({d['check'] for d in m.get('detected_by', []) if d.get('tier') == 'quick'})
    det += sorted({d['check'] + ' (thorough)' for d in m.get('detected_by', []) if d.get('tier') != 'quick' and d['check'] not in det})
    nd = m.get('not_detected_by', [])
    first = ''
    for d in m.get('detected_by', []):
        if d.get('first_signature'):
            first = d['first_signature'][:70]
            break
    summ = re.sub(r'^#+\s*', '', m.get('summary', ''))[:90].replace('|', '/')
    rows.append(f"| {m['id']} | {summ} | {', '.join(det) if det else '—'} | {first.replace('|','/')} |")
table = "| seeded change | what it is (author's words, truncated) | caught by (quick tier unless noted) | first signature |\n|---|---|---|---|\n" + "\n".join(rows)
caught = sum(1 for f in glob.glob('/verif/seeded/*/meta.json') if any(d.get('tier') == 'quick' for d in json.load(open(f)).get('detected_by', [])))
table = f"{caught} of {len(rows)} seeded changes are caught by the quick tier of at least one check.\n\n" + table
p = '/verif/DESIGN.md'
s = open(p).read()
s = re.sub(r'<!-- MATRIX:BEGIN -->.*?<!-- MATRIX:END -->', '<!-- MATRIX:BEGIN -->\n' + table.replace('\\', '\\\\') + '\n<!-- MATRIX:END -->', s, flags=re.S)
open(p, 'w').write(s)
print(caught, 'of', len(rows))
